"""Shared rule: the two sides of a pair are treated alike (x1 / x2, rows / columns).

K(x1, x2) = K(x2, x1)^T, "slicing or indexing ... commutes with evaluating first", "repetition": wherever code prepares the
first and the second input of a kernel evaluation (or re-builds a lazy kernel tensor from transformed x1 and x2), the expression
handed over for the second input must be the *twin* of the one for the first: the same expression under the swap
sigma = {x1 <-> x2, row <-> col, [-2] <-> [-1] of the matrix shape / repeat counts, [0] <-> [1] of the outputs-per-input pair}.
Decided per path on inlined expressions (local names do not matter), after canonicalising x.div(y) ~ x / y etc. and after
applying the equalities the path has established (`self.x2 is self.x1`, `x2 is None` meaning "x2 defaults to x1").
"""
from __future__ import annotations

import ast
import copy
from typing import Callable, Dict, List, Optional, Sequence, Tuple

from ..index import FuncInfo, chain, src
from ..symbolic import inline, walk_paths

METHOD_OPS = {"div": ast.Div, "true_divide": ast.Div, "mul": ast.Mult, "add": ast.Add, "sub": ast.Sub, "matmul": ast.MatMult}


class _Canon(ast.NodeTransformer):
    """x.div(y) -> x / y, x.mul(y) -> x * y, ...; drops .contiguous()/.clone()"""

    def visit_Call(self, n: ast.Call):
        self.generic_visit(n)
        if isinstance(n.func, ast.Attribute) and n.func.attr in METHOD_OPS and len(n.args) == 1 and not n.keywords:
            return ast.BinOp(left=n.func.value, op=METHOD_OPS[n.func.attr](), right=n.args[0])
        if isinstance(n.func, ast.Attribute) and n.func.attr in ("contiguous", "clone") and not n.args:
            return n.func.value
        return n


def canon(e: ast.AST) -> ast.AST:
    return _Canon().visit(copy.deepcopy(e))


class Swap(ast.NodeTransformer):
    def __init__(self, names: Dict[str, str], attrs: Dict[str, str], index_bases: Sequence[Callable[[ast.AST], Optional[Tuple[int, int]]]]):
        self.names, self.attrs, self.index_bases = names, attrs, index_bases

    def visit_Name(self, n: ast.Name):
        if n.id in self.names:
            return ast.Name(id=self.names[n.id], ctx=n.ctx)
        return n

    def visit_Attribute(self, n: ast.Attribute):
        self.generic_visit(n)
        if isinstance(n.value, ast.Name) and n.value.id == "self" and n.attr in self.attrs:
            return ast.Attribute(value=n.value, attr=self.attrs[n.attr], ctx=n.ctx)
        return n

    def visit_Subscript(self, n: ast.Subscript):
        base_before = n.value
        for pred in self.index_bases:
            pair = pred(base_before)
            if pair is not None:
                k = _const_index(n.slice)
                if k in pair:
                    other = pair[1] if k == pair[0] else pair[0]
                    self.generic_visit(n)
                    n.slice = ast.Constant(value=other) if other >= 0 else ast.UnaryOp(op=ast.USub(), operand=ast.Constant(value=-other))
                    return n
        self.generic_visit(n)
        return n


def _const_index(s: ast.AST) -> Optional[int]:
    if isinstance(s, ast.Constant) and isinstance(s.value, int):
        return s.value
    if isinstance(s, ast.UnaryOp) and isinstance(s.op, ast.USub) and isinstance(s.operand, ast.Constant) and isinstance(s.operand.value, int):
        return -s.operand.value
    return None


class _Subst(ast.NodeTransformer):
    def __init__(self, mapping: List[Tuple[str, ast.AST]]):
        self.mapping = mapping

    def visit(self, n):
        d = ast.dump(n) if isinstance(n, ast.expr) else None
        if d is not None:
            for k, v in self.mapping:
                if d == k:
                    return copy.deepcopy(v)
        return super().visit(n)


def _strip_ctx(e: ast.AST) -> ast.AST:
    for x in ast.walk(e):
        if hasattr(x, "ctx"):
            x.ctx = ast.Load()
    return e


def _literals(t: ast.AST, truth: bool) -> List[Tuple[ast.AST, bool]]:
    """atoms whose truth value is forced by `t == truth` (true conjunctions, false disjunctions, negations, is-not / != flipped)"""
    if isinstance(t, ast.UnaryOp) and isinstance(t.op, ast.Not):
        return _literals(t.operand, not truth)
    if isinstance(t, ast.BoolOp):
        if (isinstance(t.op, ast.And) and truth) or (isinstance(t.op, ast.Or) and not truth):
            out = []
            for v in t.values:
                out += _literals(v, truth)
            return out
        return [(t, truth)]
    if isinstance(t, ast.Compare) and len(t.ops) == 1 and isinstance(t.ops[0], (ast.IsNot, ast.NotEq)):
        flipped = ast.Compare(left=t.left, ops=[ast.Is() if isinstance(t.ops[0], ast.IsNot) else ast.Eq()], comparators=t.comparators)
        return [(flipped, not truth)]
    return [(t, truth)]


def path_conditions(seq) -> List[Tuple[ast.AST, bool]]:
    out = []
    for st, env in seq:
        if isinstance(st, ast.stmt) or st.kind != "assume":
            continue
        out += _literals(inline(st.node, env), bool(st.truth))
    return out


def path_equalities(conds: List[Tuple[ast.AST, bool]], pairs: Sequence[Tuple[ast.AST, ast.AST]]) -> List[Tuple[str, ast.AST]]:
    """substitutions (dump of the replaced expression, replacement) established by the true atoms on the path:
    `a is b` / `a == b` -> replace b by a;  `<second of a pair> is None` -> the second defaults to the first"""
    out: List[Tuple[str, ast.AST]] = []
    for c, truth in conds:
        if not truth:
            continue
        if isinstance(c, ast.Compare) and len(c.ops) == 1 and isinstance(c.ops[0], (ast.Is, ast.Eq)):
            a, b = c.left, c.comparators[0]
            if isinstance(b, ast.Constant) and b.value is None:
                for first, second in pairs:
                    if ast.dump(_strip_ctx(copy.deepcopy(a))) == ast.dump(second):
                        out.append((ast.dump(second), first))
            elif not isinstance(b, ast.Constant) and not isinstance(a, ast.Constant):
                out.append((ast.dump(_strip_ctx(copy.deepcopy(b))), _strip_ctx(copy.deepcopy(a))))
    return out


def twins(a: ast.AST, b: ast.AST, swap: Swap, eqs: List[Tuple[str, ast.AST]]) -> bool:
    """is b the twin of a?  sigma(a) == b modulo canonical forms and the path's equalities"""
    sa = _strip_ctx(swap.visit(copy.deepcopy(a)))
    bb = _strip_ctx(copy.deepcopy(b))
    if eqs:
        sa = _Subst(eqs).visit(sa)
        bb = _Subst(eqs).visit(bb)
    return ast.dump(canon(sa)) == ast.dump(canon(bb))


class _SwapOpaque(Swap):
    OPAQUE = ("num_outputs_per_input",)

    def visit_Call(self, n: ast.Call):
        if isinstance(n.func, ast.Attribute) and n.func.attr in self.OPAQUE:
            return n  # a symmetric quantity of the pair as a whole: not swapped inside
        self.generic_visit(n)
        return n


def mentions(e: ast.AST, name: str) -> bool:
    return any(isinstance(x, ast.Name) and x.id == name for x in ast.walk(e))


def pair_sites_in_function(fi: FuncInfo, swap: Swap, none_pairs, is_site: Callable[[ast.Call, ast.AST, ast.AST], bool], limit: int = 20000):
    """-> (number of pair sites, problems).  A pair site is a call for which is_site(call, A, B) holds (A, B: the inlined first two
    positional arguments).  For each site the set of (A, B) over all paths reaching it must be closed under the swap: for every
    (A, B) some path hands over (sigma B, sigma A) - whatever is done to one side (including conditionally) is done to the other.
    Path conditions themselves are not compared (guards such as torch.equal(x1, x2) are not symmetric as text)."""
    sites: Dict[int, Tuple[ast.Call, Dict[Tuple[str, str], tuple]]] = {}

    def norm_dump(e: ast.AST, eqs) -> str:
        e = _strip_ctx(copy.deepcopy(e))
        if eqs:
            e = _Subst(eqs).visit(e)
        return ast.dump(canon(e))

    for path, seq in walk_paths(fi, limit=limit):
        eqs = None
        feasible = None
        for st, env in seq:
            if not isinstance(st, ast.stmt):
                continue
            for c in (x for x in ast.walk(st) if isinstance(x, ast.Call)):
                if len(c.args) < 2 or any(isinstance(a, ast.Starred) for a in c.args[:2]):
                    continue
                a, b = inline(c.args[0], env), inline(c.args[1], env)
                if not is_site(c, a, b):
                    continue
                if eqs is None:
                    conds = path_conditions(seq)
                    # the same (inlined, call-free) atom assumed true and false: the path is infeasible
                    tv: Dict[str, bool] = {}
                    feasible = True
                    for t, tr in conds:
                        if any(isinstance(x, ast.Call) for x in ast.walk(t)):
                            continue
                        d = ast.dump(_strip_ctx(copy.deepcopy(t)))
                        if tv.setdefault(d, tr) != tr:
                            feasible = False
                    eqs = path_equalities(conds, none_pairs)
                    txt = " and ".join("%s is %s" % (" ".join(src(t).split())[:40], tr) for t, tr in conds)
                if not feasible:
                    continue
                pair = (norm_dump(a, eqs), norm_dump(b, eqs))
                image = (norm_dump(swap.visit(copy.deepcopy(b)), eqs), norm_dump(swap.visit(copy.deepcopy(a)), eqs))
                sites.setdefault(id(c), (c, {}))[1].setdefault(pair, (a, b, txt, image))
    probs: List[str] = []
    for c, pairs in sites.values():
        for pair, (a, b, txt, image) in pairs.items():
            if image not in pairs:
                probs.append("`%s(...)` (line %d): the second input `%s` is not the twin of the first `%s`%s (no path hands over the mirrored pair)" % (
                    src(c.func)[:40], c.lineno, " ".join(src(b).split())[:70], " ".join(src(a).split())[:70], (" when " + txt[:140]) if txt else ""))
                break
    return len(sites), probs


PAIR_CONSUMER_ATTRS = {"covar_dist", "forward", "__call__", "apply"}
PAIR_CONSUMER_NAMES = {"sq_dist", "dist", "LazyEvaluatedKernelTensor"}
KERNEL_HOLDERS = ("kernel", "covar_module", "module")


def is_pair_consumer(c: ast.Call) -> bool:
    f = c.func
    if isinstance(f, ast.Name):
        return f.id in PAIR_CONSUMER_NAMES
    if isinstance(f, ast.Attribute):
        if f.attr in PAIR_CONSUMER_ATTRS or f.attr == "__class__":
            return True
        return any(f.attr == h or f.attr.endswith("_" + h) for h in KERNEL_HOLDERS)  # self.base_kernel(...), self.data_covar_module(...)
    if isinstance(f, ast.Subscript):
        return is_pair_consumer(ast.Call(func=f.value, args=[], keywords=[])) or (isinstance(f.value, ast.Attribute) and f.value.attr in ("kernels", "covar_module_list"))
    if isinstance(f, ast.Call) and isinstance(f.func, ast.Name) and f.func.id == "__iter_item__" and f.args:
        it = f.args[0]
        while isinstance(it, ast.Subscript):
            it = it.value
        return isinstance(it, ast.Attribute) and it.attr in ("kernels", "covar_module_list")
    return False


def twin_obligations(idx, rep, rule: str, floor: int):
    """C06-6 over (a) every method / helper function that takes (x1, x2), (b) every method of LazyEvaluatedKernelTensor"""
    K = idx.find_class("Kernel")
    funcs: List[FuncInfo] = []
    for cls in idx.subclasses(K):
        if "keops" in cls.module.name:
            continue
        funcs += [m for m in cls.methods.values()]
    for mi in idx.modules.values():
        if mi.name.startswith(idx.package + ".kernels") or mi.name.startswith(idx.package + ".functions"):
            funcs += list(mi.functions.values())
            if mi.name.startswith(idx.package + ".functions"):
                for c in mi.classes.values():
                    funcs += list(c.methods.values())
    total = 0
    seen = set()
    for fi in sorted(funcs, key=lambda f: (f.module.name, f.qualname)):
        if id(fi.node) in seen:
            continue
        seen.add(id(fi.node))
        ps = fi.params
        if "x1" not in ps or "x2" not in ps:
            continue
        swap = _SwapOpaque({"x1": "x2", "x2": "x1"}, {}, [])

        def is_site(c, a, b):
            return is_pair_consumer(c) and mentions(a, "x1") and not mentions(a, "x2") and mentions(b, "x2") and not mentions(b, "x1")
        n, probs = pair_sites_in_function(fi, swap, [(ast.Name(id="x1", ctx=ast.Load()), ast.Name(id="x2", ctx=ast.Load()))], is_site)
        if n == 0:
            continue
        total += n
        rep.add(rule, "%s:%s" % (fi.module.name, fi.qualname), fi.where, not probs, "%d pair site(s): x1 and x2 reach the consumer through mirrored transformations" % n if not probs else "; ".join(probs[:2]), {"sites": n})
    # (b) the lazy kernel tensor: x1/x2 with rows/columns
    L = idx.cls(idx.package + ".lazy.lazy_evaluated_kernel_tensor", "LazyEvaluatedKernelTensor")
    for name, fi in sorted(L.methods.items()):
        va = fi.node.args.vararg.arg if fi.node.args.vararg else None

        def idx_pred_shape(base, va=va):
            if chain(base) == "self.shape":
                return (-2, -1)
            b0 = base.value if isinstance(base, ast.Subscript) else base  # `repeats = repeats[0]` re-binding
            if va and isinstance(b0, ast.Name) and b0.id == va and name == "repeat":
                return (-2, -1)
            if isinstance(base, ast.Call) and isinstance(base.func, ast.Attribute) and base.func.attr == "num_outputs_per_input":
                return (0, 1)
            return None
        names = {}
        for a_, b_ in (("row_index", "col_index"), ("left_vecs", "right_vecs")):
            if a_ in fi.params and b_ in fi.params:
                names[a_], names[b_] = b_, a_
        swap = _SwapOpaque(names, {"x1": "x2", "x2": "x1"}, [idx_pred_shape])

        def has_attr(e, attr):
            return any(isinstance(x, ast.Attribute) and x.attr == attr and isinstance(x.value, ast.Name) and x.value.id == "self" for x in ast.walk(e))

        def is_site(c, a, b):
            f = c.func
            ctor = (isinstance(f, ast.Attribute) and f.attr == "__class__") or (isinstance(f, ast.Name) and f.id == "LazyEvaluatedKernelTensor")
            return ctor and (has_attr(a, "x1") or has_attr(a, "x2")) and (has_attr(b, "x1") or has_attr(b, "x2"))
        none_pairs = [(ast.Attribute(value=ast.Name(id="self", ctx=ast.Load()), attr="x1", ctx=ast.Load()), ast.Attribute(value=ast.Name(id="self", ctx=ast.Load()), attr="x2", ctx=ast.Load()))]
        n, probs = pair_sites_in_function(fi, swap, none_pairs, is_site, limit=200000)
        if n == 0:
            continue
        total += n
        rep.add(rule, "%s:LazyEvaluatedKernelTensor.%s" % (L.module.name, name), fi.where, not probs, "%d re-construction site(s): x1/rows and x2/columns are transformed alike" % n if not probs else "; ".join(probs[:2]), {"sites": n})
    rep.floor(rule, "pair sites", total, floor)
