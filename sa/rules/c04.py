"""C04 - fantasy models: the source is left untouched; old data precede new data (structural clauses).

C04-1  save / null / restore pairing around deepcopy(self) on every normal path
C04-2  effect confinement of the fantasy path: writes go only to objects created in the function (or the paired attributes)
C04-3  train-first agreement: every concatenation lists the old part first (inputs, targets, noise); the fantasy strategy splits
       the joint prior at num_train with consistent block types
C04-4  every get_fantasy_likelihood returns a copy, never the source likelihood
Does not decide the bordered-system numerics.  (DESIGN.md section 4, C04.)
"""
from __future__ import annotations

import ast
from typing import Dict, List, Optional, Set, Tuple

from ..cfg import enumerate_paths, FALL, RETURN, RAISE
from ..domains.blocks import ALL, NEW, OLD, BlockEval, show
from ..index import (AnalysisError, ClassInfo, FuncInfo, ProgramIndex, body_without_docstring, call_name, calls_in, chain,
                     const_str, is_super_call, norm, src, walk_no_nested)
from ..report import Report

BOOKKEEPING = {
    # attribute -> reason (stores on the source that cannot influence anything: checked to be never read)
    "fantasy_inputs": "bookkeeping of the last fantasy inputs; never read anywhere in gpytorch",
    "fantasy_targets": "bookkeeping of the last fantasy targets; never read anywhere in gpytorch",
}


def _is_deepcopy_of_self(c: ast.Call, sn: str) -> bool:
    return (chain(c.func) or "").split(".")[-1] == "deepcopy" and bool(c.args) and src(c.args[0]) == sn


_HELPER_CACHE: Dict[int, Dict[str, FuncInfo]] = {}


def copy_helpers(idx: ProgramIndex, cls: ClassInfo) -> Dict[str, FuncInfo]:
    """methods of `cls` (own or inherited, other than get_fantasy_*) that deep-copy self and return the copy on every return:
    `self.<helper>(...)` is then as fresh as `deepcopy(self)` itself, and the helper belongs to the fantasy path"""
    key = id(cls)
    if key in _HELPER_CACHE:
        return _HELPER_CACHE[key]
    out: Dict[str, FuncInfo] = {}
    _HELPER_CACHE[key] = out
    for k in cls.mro():
        for name, m in getattr(k, "methods", {}).items():
            if name in out or name.startswith("get_fantasy_") or not m.params or m.kind != "method":
                continue
            if not any(_is_deepcopy_of_self(c, m.params[0]) for c in calls_in(m.node)):
                continue
            fresh = _fresh_locals(idx, m, helpers=False)
            rets = [r.value for r in ast.walk(m.node) if isinstance(r, ast.Return) and r.value is not None]
            if rets and all(isinstance(r, ast.Name) and r.id in fresh for r in rets):
                out[name] = m
    return out


def _helper_call(idx: ProgramIndex, fi: FuncInfo, c: ast.AST) -> Optional[FuncInfo]:
    if fi.cls is not None and fi.params and isinstance(c, ast.Call) and isinstance(c.func, ast.Attribute) and isinstance(c.func.value, ast.Name) and c.func.value.id == fi.params[0]:
        return copy_helpers(idx, fi.cls).get(c.func.attr)
    return None


def fantasy_functions(idx: ProgramIndex) -> List[FuncInfo]:
    out = []
    for fi in idx.all_functions():
        if fi.cls is not None and fi.name in ("get_fantasy_model", "get_fantasy_strategy", "get_fantasy_likelihood"):
            out.append(fi)
    # ... and the copy-making helpers they delegate to
    for fi in list(out):
        for c in calls_in(fi.node):
            h = _helper_call(idx, fi, c)
            if h is not None and h not in out:
                out.append(h)
    return sorted(out, key=lambda f: (f.module.name, f.qualname))


def run(idx: ProgramIndex, rep: Report, tier: str):
    rep.explanation = (
        "Structural analysis of the fantasy path (get_fantasy_model / get_fantasy_strategy / get_fantasy_likelihood in all classes): "
        "(1) around each deepcopy(self) the set of self attributes re-bound to None equals the set restored afterwards, each from the "
        "local that captured it, on every normal path and before any later read; (2) effect analysis: every attribute store, in-place "
        "tensor method and cache write in these functions targets an object created in the function (the copy, the new strategy, "
        "locals) - stores on self are allowed only for the paired attributes and two never-read bookkeeping fields; (3) provenance of "
        "every torch.cat: operands derived from self (old data / old noise) come before operands derived from the call arguments, and "
        "block typing of the joint prior in get_fantasy_strategy (fantasy mean NEW, fantasy covariance NEW x NEW, cross covariance "
        "NEW x OLD at their consumers cat_rows / likelihood call); (4) get_fantasy_likelihood returns a deep copy. "
        "The Schur-complement update itself is numerical and not decided.")
    rep.rule("C04-1", "attributes nulled around deepcopy(self) are restored from their captured locals on every normal path")
    rep.rule("C04-2", "the fantasy path writes only to objects it created (effect confinement)")
    rep.rule("C04-3", "old data/noise are concatenated before new; the joint prior is split at num_train with consistent block types")
    rep.rule("C04-4", "get_fantasy_likelihood returns a copy of the likelihood")
    rep.rule("C04-5", "access-path agreement: what the copy stores at path P as old ++ new takes its old part from the source's path P")
    fns = fantasy_functions(idx)
    rep.floor("C04-2", "functions on the fantasy path", len(fns), 10)
    for fi in fns:
        pairing(idx, fi, rep)
        confinement(idx, fi, rep)
        concatenations(idx, fi, rep)
        path_agreement(idx, fi, rep)
    rep.floor("C04-5", "stores of old ++ new on the copy", len([o for o in rep.obligations if o.rule == "C04-5"]), 4)
    strategy_blocks(idx, rep)
    likelihood_copies(idx, rep)
    fantasy_noise_forwarded(idx, rep)
    symmetric_expansion(idx, rep, fns)
    fantasy_noise_kept(idx, rep)
    rep.rule("C04-6", "the caches carried into the fantasy strategy do not depend on detach_test_caches (branches differ by .detach() only)")
    from .c03 import detach_neutral
    detach_neutral(idx, rep, rule="C04-6", only_functions={"get_fantasy_strategy", "get_fantasy_model"}, floor=1)
    lazy_references(idx, rep)
    residual_layout(idx, rep)
    per_member_kwargs(idx, rep)
    member_argument_arity(idx, rep)
    woodbury_identity(idx, rep)
    rep.assume("exception safety is outside the statement: a deepcopy that raises (e.g. non-leaf cached tensors) leaves the source with nulled attributes, but then no fantasy model was created")


# ---- C04-1 ---------------------------------------------------------------------------------------------------------
def pairing(idx: ProgramIndex, fi: FuncInfo, rep: Report):
    sn = fi.params[0]
    dcs = [c for c in calls_in(fi.node) if (chain(c.func) or "").split(".")[-1] == "deepcopy" and c.args and src(c.args[0]) == sn]
    if not dcs:
        return
    inst = "%s:%s[deepcopy(self)]" % (fi.module.name, fi.qualname)
    probs = []
    npaths = 0
    for p in enumerate_paths(body_without_docstring(fi.node)):
        if p.outcome not in (RETURN, FALL):
            continue
        saved: Dict[str, str] = {}  # attr -> local
        nulled: Set[str] = set()
        copied = False
        for s in p.steps:
            if s.kind != "stmt":
                continue
            st = s.node
            is_dc = any(c in list(ast.walk(st)) for c in dcs)
            if isinstance(st, ast.Assign) and len(st.targets) == 1:
                t, v = st.targets[0], st.value
                tc, vc = chain(t), chain(v)
                if isinstance(t, ast.Name) and vc and vc.startswith(sn + ".") and vc.count(".") == 1 and not copied:
                    saved[vc.split(".")[1]] = t.id
                elif tc and tc.startswith(sn + ".") and tc.count(".") == 1:
                    a = tc.split(".")[1]
                    if isinstance(v, ast.Constant) and v.value is None and not copied:
                        if a not in saved:
                            probs.append("self.%s is set to None before its value was captured" % a)
                        nulled.add(a)
                    elif copied and a in nulled:
                        if isinstance(v, ast.Name) and saved.get(a) == v.id:
                            nulled.discard(a)
                        else:
                            probs.append("self.%s is re-bound to `%s` after the copy, not to the captured local `%s`" % (a, src(v), saved.get(a)))
            if is_dc:
                copied = True
                continue
            if copied and nulled:
                # a read of a still-nulled attribute before its restore
                for n in ast.walk(st):
                    if isinstance(n, ast.Attribute) and isinstance(n.ctx, ast.Load) and chain(n) and chain(n).startswith(sn + ".") and chain(n).split(".")[1] in nulled:
                        probs.append("self.%s is read while it is still None (before its restore)" % chain(n).split(".")[1])
        if copied:
            npaths += 1
            for a in sorted(nulled):
                probs.append("self.%s is set to None for the copy and never restored on a normal path: the source model loses it" % a)
    rep.add("C04-1", inst, fi.where, not probs and npaths > 0, "every attribute nulled for the copy is restored from its captured local on all %d normal path(s)" % npaths if not probs else "; ".join(sorted(set(probs))), {"paths": npaths})


# ---- C04-2 ---------------------------------------------------------------------------------------------------------
def _fresh_locals(idx: ProgramIndex, fi: FuncInfo, helpers: bool = True) -> Set[str]:
    """locals bound to objects created in this function (constructor calls, deepcopy, get_fantasy_* results, results of the
    class's own copy-making helpers, comprehensions)"""
    fresh: Set[str] = set()
    changed = True
    while changed:
        changed = False
        for n in ast.walk(fi.node):
            if isinstance(n, ast.Assign) and len(n.targets) == 1 and isinstance(n.targets[0], ast.Name) and n.targets[0].id not in fresh:
                v = n.value
                ok = False
                if isinstance(v, ast.Call):
                    fn = chain(v.func) or ""
                    short = v.func.attr if isinstance(v.func, ast.Attribute) else fn.split(".")[-1]
                    if short == "deepcopy" or short.startswith("get_fantasy_") or fn == "self.__class__" or short in ("amortized_exact_gp",):
                        ok = True
                    r = idx.resolve_expr(fi.module, v.func)
                    if isinstance(r, ClassInfo):
                        ok = True
                    if not ok and helpers and _helper_call(idx, fi, v) is not None:
                        ok = True
                elif isinstance(v, ast.Attribute) and isinstance(v.value, ast.Name) and v.value.id in fresh:
                    ok = True  # attribute of a fresh object (fantasy_model.prediction_strategy)
                if ok:
                    fresh.add(n.targets[0].id)
                    changed = True
    return fresh


INPLACE_OK = {"requires_grad_", "register_hook", "fill_diagonal_"}


def confinement(idx: ProgramIndex, fi: FuncInfo, rep: Report):
    sn = fi.params[0]
    fresh = _fresh_locals(idx, fi)
    inst = "%s:%s" % (fi.module.name, fi.qualname)
    probs = []
    paired: Set[str] = set()
    # attributes saved to a local and later restored from it (C04-1 pairs)
    saves = {}
    for n in ast.walk(fi.node):
        if isinstance(n, ast.Assign) and len(n.targets) == 1 and isinstance(n.targets[0], ast.Name) and chain(n.value) and chain(n.value).startswith(sn + ".") and chain(n.value).count(".") == 1:
            saves[n.targets[0].id] = chain(n.value).split(".")[1]
    for n in ast.walk(fi.node):
        if isinstance(n, ast.Assign) and isinstance(n.value, ast.Name) and n.value.id in saves:
            for t in n.targets:
                if chain(t) == "%s.%s" % (sn, saves[n.value.id]):
                    paired.add(saves[n.value.id])
    nstores = 0
    for n in ast.walk(fi.node):
        # attribute stores
        tg = n.targets if isinstance(n, ast.Assign) else ([n.target] if isinstance(n, (ast.AugAssign, ast.AnnAssign)) else [])
        for t in tg:
            for e in ([t] if not isinstance(t, ast.Tuple) else t.elts):
                if isinstance(e, (ast.Attribute, ast.Subscript)):
                    root = e
                    while isinstance(root, (ast.Attribute, ast.Subscript)):
                        root = root.value
                    if not isinstance(root, ast.Name):
                        continue
                    nstores += 1
                    if root.id == sn:
                        c = chain(e) if isinstance(e, ast.Attribute) else None
                        attr = c.split(".")[1] if c else src(e)
                        if c and c.count(".") == 1 and attr in paired:
                            v = n.value if isinstance(n, ast.Assign) else None
                            if v is not None and ((isinstance(v, ast.Constant) and v.value is None) or (isinstance(v, ast.Name) and saves.get(v.id) == attr)):
                                continue
                            probs.append("paired attribute `%s` of the source is re-bound to `%s` (neither None for the copy nor its captured value)" % (src(e), src(v) if v is not None else "?"))
                            continue
                        if c and c.count(".") == 1 and attr in BOOKKEEPING:
                            if _is_read_anywhere(idx, attr):
                                probs.append("bookkeeping attribute self.%s is read somewhere: it is state of the source now" % attr)
                            continue
                        probs.append("writes `%s` on the source object" % src(e))
                    elif root.id in fresh or root.id in ("kwargs",):
                        continue
                    elif root.id in fi.params:
                        probs.append("writes `%s` on an argument" % src(e))
        # in-place tensor methods and cache writes
        if isinstance(n, ast.Call) and isinstance(n.func, ast.Attribute):
            m = n.func.attr
            recv = n.func.value
            root = recv
            while isinstance(root, (ast.Attribute, ast.Subscript, ast.Call)):
                root = root.value if not isinstance(root, ast.Call) else root.func
            if m.endswith("_") and not m.startswith("__") and m not in INPLACE_OK and isinstance(root, ast.Name) and root.id == sn and isinstance(recv, ast.Attribute):
                probs.append("in-place tensor method `%s` on state of the source" % src(n.func))
        if isinstance(n, ast.Call) and (chain(n.func) or "").split(".")[-1] == "add_to_cache" and n.args:
            a0 = n.args[0]
            if not (isinstance(a0, ast.Name) and a0.id in fresh):
                probs.append("cache entry planted on `%s`, which is not an object created here" % src(a0))
    rep.add("C04-2", inst, fi.where, not probs, "all %d attribute/subscript stores, in-place calls and cache writes target objects created in the function (fresh: %s) or the paired attributes %s" % (nstores, sorted(fresh)[:6], sorted(paired)) if not probs else "; ".join(sorted(set(probs))),
            {"fresh_locals": sorted(fresh), "paired": sorted(paired), "stores": nstores})


def _is_read_anywhere(idx: ProgramIndex, attr: str) -> bool:
    for f in idx.all_functions():
        for n in ast.walk(f.node):
            if isinstance(n, ast.Attribute) and n.attr == attr and isinstance(n.ctx, ast.Load):
                return True
    return False


# ---- C04-3 ---------------------------------------------------------------------------------------------------------
SHAPE_METHODS = {"expand", "view", "reshape", "unsqueeze", "squeeze", "transpose", "contiguous", "to", "type_as", "repeat", "clone", "detach"}


def _data_parts(e: ast.AST):
    """sub-expressions that carry the *data* of e (arguments of shape-only methods are ignored)"""
    if isinstance(e, ast.Call) and isinstance(e.func, ast.Attribute) and e.func.attr in SHAPE_METHODS:
        yield from _data_parts(e.func.value)
        return
    if isinstance(e, (ast.ListComp, ast.GeneratorExp)):
        yield from _data_parts(e.elt)
        return
    if isinstance(e, ast.IfExp):
        yield from _data_parts(e.body)
        yield from _data_parts(e.orelse)
        return
    yield e


def _names_and_self(e: ast.AST, sn: str):
    names, has_self = set(), False
    for part in _data_parts(e):
        if isinstance(part, ast.Name) and part.id == sn:
            has_self = True  # an alias of the source object itself
        for x in ast.walk(part):
            if isinstance(x, ast.Name):
                names.add(x.id)
            if isinstance(x, ast.Attribute) and isinstance(x.value, ast.Name) and x.value.id == sn:
                has_self = True
    return names, has_self


def _provenance(fi: FuncInfo) -> Tuple[Set[str], Set[str]]:
    """(names derived from self = OLD, names derived from call arguments = NEW)"""
    sn = fi.params[0]
    old: Set[str] = set()
    new: Set[str] = set(fi.params[1:])
    if fi.node.args.kwarg:
        new.add(fi.node.args.kwarg.arg)
    nodes = list(ast.walk(fi.node))
    changed = True
    while changed:
        changed = False
        for n in nodes:
            pairs = []
            if isinstance(n, ast.Assign) and len(n.targets) == 1:
                if isinstance(n.targets[0], ast.Tuple) and isinstance(n.value, ast.Tuple) and len(n.targets[0].elts) == len(n.value.elts):
                    pairs += list(zip(n.targets[0].elts, n.value.elts))
                else:
                    pairs.append((n.targets[0], n.value))
            if isinstance(n, (ast.For, ast.comprehension)):
                it = n.iter
                if isinstance(it, ast.Call) and (chain(it.func) or "").split(".")[-1] in ("zip", "length_safe_zip") and isinstance(n.target, ast.Tuple) and len(n.target.elts) == len(it.args):
                    pairs += list(zip(n.target.elts, it.args))
                else:
                    pairs.append((n.target, it))
            for t, v in pairs:
                names, has_self = _names_and_self(v, sn)
                names.discard(sn)
                from_old = has_self or bool(names & old)
                from_new = bool(names & new)
                for x in ast.walk(t):
                    if isinstance(x, ast.Name):
                        if from_old and not from_new and x.id not in old and x.id not in new:
                            old.add(x.id)
                            changed = True
                        elif from_new and not from_old and x.id not in new and x.id not in old:
                            new.add(x.id)
                            changed = True
    return old, new


def _side(e: ast.AST, old: Set[str], new: Set[str], sn: str) -> str:
    names, has_self = _names_and_self(e, sn)
    names.discard(sn)
    o = has_self or bool(names & old)
    n = bool(names & new)
    if o and not n:
        return "OLD"
    if n and not o:
        return "NEW"
    return "MIXED" if o and n else "UNKNOWN"


def concatenations(idx: ProgramIndex, fi: FuncInfo, rep: Report):
    sn = fi.params[0]
    cats = [c for c in calls_in(fi.node) if chain(c.func) == "torch.cat" and c.args and isinstance(c.args[0], (ast.List, ast.Tuple)) and len(c.args[0].elts) == 2]
    if not cats:
        return
    old, new = _provenance(fi)
    # the copy of the likelihood carries *old* targets (Dirichlet): attributes of a deepcopy of self are OLD
    for n in ast.walk(fi.node):
        if isinstance(n, ast.Assign) and isinstance(n.value, ast.Call) and (chain(n.value.func) or "").split(".")[-1] == "deepcopy" and n.value.args and src(n.value.args[0]) == sn and isinstance(n.targets[0], ast.Name):
            old.add(n.targets[0].id)
    for c in cats:
        a, b = c.args[0].elts
        sa, sb = _side(a, old, new, sn), _side(b, old, new, sn)
        inst = "%s:%s:torch.cat(%s)" % (fi.module.name, fi.qualname, norm(c.args[0])[:70])
        where = "%s:%d" % (fi.module.relpath, c.lineno)
        if {sa, sb} == {"OLD", "NEW"}:
            ok = sa == "OLD"
            rep.add("C04-3", inst, where, ok, "old part first, new part second" if ok else "the new data are concatenated before the old data (`%s` is derived from the call arguments, `%s` from the source): every split at num_train selects the wrong block" % (src(a)[:40], src(b)[:40]), {"first": sa, "second": sb})
        else:
            rep.observe("C04-3", inst, where, "operands have provenance (%s, %s): not an old/new concatenation (e.g. upper/lower halves of the updated cache)" % (sa, sb))


# ---- C04-5 ---------------------------------------------------------------------------------------------------------
def _defs_of(fi: FuncInfo, name: str) -> List[ast.AST]:
    """data expressions bound to the local `name` anywhere in fi (flow-insensitive): assignment values, iteration sources
    (zip-positional), comprehension sources"""
    out: List[ast.AST] = []
    for n in ast.walk(fi.node):
        pairs = []
        if isinstance(n, ast.Assign) and len(n.targets) == 1:
            t = n.targets[0]
            if isinstance(t, ast.Tuple) and isinstance(n.value, ast.Tuple) and len(t.elts) == len(n.value.elts):
                pairs += list(zip(t.elts, n.value.elts))
            else:
                pairs.append((t, n.value))
        if isinstance(n, (ast.For, ast.comprehension)):
            it = n.iter
            if isinstance(it, ast.Call) and (chain(it.func) or "").split(".")[-1] in ("zip", "length_safe_zip") and isinstance(n.target, ast.Tuple) and len(n.target.elts) == len(it.args):
                pairs += list(zip(n.target.elts, it.args))
            else:
                pairs.append((n.target, it))
        for t, v in pairs:
            if isinstance(t, ast.Name) and t.id == name:
                out.append(v)
    return out


def _read_paths(fi: FuncInfo, e: ast.AST, roots: Set[str], seen: Tuple[str, ...] = ()) -> Set[Optional[Tuple[str, ...]]]:
    """attribute paths, relative to the source object (self or its deep copy), from which the data of `e` are read.
    None stands for 'not a plain path' (a computed value)."""
    out: Set[Optional[Tuple[str, ...]]] = set()
    for part in _data_parts(e):
        if isinstance(part, ast.Name):
            if part.id in roots:
                out.add(())
                continue
            if part.id in seen:
                continue  # x = x.expand(...) re-binding
            defs = _defs_of(fi, part.id)
            if not defs:
                out.add(None)
            for d in defs:
                out |= _read_paths(fi, d, roots, seen + (part.id,))
        elif isinstance(part, ast.Attribute):
            for b in _read_paths(fi, part.value, roots, seen):
                if b == () and fi.cls is not None:
                    # a property of the source object: look through it (an alias property is the path it returns)
                    m = fi.cls.lookup(part.attr)
                    if m is not None and m.kind == "property":
                        rets = [r.value for r in ast.walk(m.node) if isinstance(r, ast.Return) and r.value is not None]
                        for r in rets:
                            out |= _read_paths(m, r, {m.params[0]}, ())
                        continue
                out.add(None if b is None else b + (part.attr,))
        elif isinstance(part, ast.Subscript):
            out |= _read_paths(fi, part.value, roots, seen)
        else:
            out.add(None)
    return out


def _ctor_field(idx: ProgramIndex, fi: FuncInfo, call: ast.Call, kw: str) -> Optional[str]:
    """attribute under which constructor `call` stores its keyword `kw` (None if `call` is not a known constructor)"""
    r = idx.resolve_expr(fi.module, call.func)
    if not isinstance(r, ClassInfo):
        return None
    init = r.lookup("__init__")
    if init is None:
        return None
    sn = init.params[0]
    for n in ast.walk(init.node):
        if isinstance(n, ast.Assign) and len(n.targets) == 1 and isinstance(n.targets[0], ast.Attribute) and isinstance(n.targets[0].value, ast.Name) and n.targets[0].value.id == sn \
                and isinstance(n.value, ast.Name) and n.value.id == kw:
            return n.targets[0].attr
    # ... or stores it after a helper of the class worked on it: self.<attr> = self._helper(<kw>)
    for n in ast.walk(init.node):
        if isinstance(n, ast.Assign) and len(n.targets) == 1 and isinstance(n.targets[0], ast.Attribute) and isinstance(n.targets[0].value, ast.Name) and n.targets[0].value.id == sn \
                and isinstance(n.value, ast.Call) and isinstance(n.value.func, ast.Attribute) and chain(n.value.func.value) in (sn, r.name) and len(n.value.args) >= 1 \
                and isinstance(n.value.args[0], ast.Name) and n.value.args[0].id == kw:
            return n.targets[0].attr
    raise AnalysisError("%s: constructor %s does not store its `%s` argument under an attribute (unknown form)" % (fi.qualname, r.qualname, kw))


def _cats_behind(idx: ProgramIndex, fi: FuncInfo, v: ast.AST, suffix: Tuple[str, ...] = (), seen: Tuple[str, ...] = ()) -> List[Tuple[ast.Call, Tuple[str, ...]]]:
    """torch.cat calls that produce the data of `v`, each with the attribute suffix added by constructors on the way"""
    out: List[Tuple[ast.Call, Tuple[str, ...]]] = []
    for part in _data_parts(v):
        if isinstance(part, ast.Call) and chain(part.func) == "torch.cat":
            out.append((part, suffix))
        elif isinstance(part, ast.Name) and part.id not in seen:
            for d in _defs_of(fi, part.id):
                out += _cats_behind(idx, fi, d, suffix, seen + (part.id,))
        elif isinstance(part, ast.Call):
            for k in part.keywords:
                if k.arg and any(isinstance(x, ast.Call) and chain(x.func) == "torch.cat" for x in ast.walk(k.value)):
                    f = _ctor_field(idx, fi, part, k.arg)
                    if f is not None:
                        out += _cats_behind(idx, fi, k.value, suffix + (f,), seen)
    return out


def path_agreement(idx: ProgramIndex, fi: FuncInfo, rep: Report):
    sn = fi.params[0]
    fresh = _fresh_locals(idx, fi)
    copies = set()
    for n in ast.walk(fi.node):
        if isinstance(n, ast.Assign) and isinstance(n.value, ast.Call) and (chain(n.value.func) or "").split(".")[-1] == "deepcopy" and n.value.args and src(n.value.args[0]) == sn and isinstance(n.targets[0], ast.Name):
            copies.add(n.targets[0].id)
    if not copies:
        return
    old, new = _provenance(fi)
    old |= copies
    roots = {sn} | copies
    for n in walk_no_nested(fi.node):
        if not (isinstance(n, ast.Assign) and len(n.targets) == 1 and isinstance(n.targets[0], ast.Attribute)):
            continue
        t = n.targets[0]
        base = chain(t.value)
        if base not in copies:
            continue
        for cat, suffix in _cats_behind(idx, fi, n.value):
            if not (cat.args and isinstance(cat.args[0], (ast.List, ast.Tuple)) and len(cat.args[0].elts) == 2):
                continue
            a, b = cat.args[0].elts
            sides = (_side(a, old, new, sn), _side(b, old, new, sn))
            if set(sides) != {"OLD", "NEW"}:
                continue
            o = a if sides[0] == "OLD" else b
            wpath = (t.attr,) + suffix
            # a property with a setter: the store lands where the getter reads (normalise the write path through the getter)
            m = fi.cls.lookup(t.attr) if fi.cls is not None else None
            if m is not None and m.kind == "property":
                g = set()
                for r in ast.walk(m.node):
                    if isinstance(r, ast.Return) and r.value is not None:
                        g |= _read_paths(m, r.value, {m.params[0]}, ())
                if len(g) == 1 and None not in g:
                    wpath = next(iter(g)) + suffix
            rpaths = _read_paths(fi, o, roots)
            inst = "%s:%s:%s.%s" % (fi.module.name, fi.qualname, "<copy>", ".".join(wpath))
            k = len([o for o in rep.obligations if o.rule == "C04-5" and o.instance.split("#")[0] == inst])
            if k:
                inst += "#%d" % (k + 1)
            where = "%s:%d" % (fi.module.relpath, n.lineno)
            ok = rpaths == {wpath}
            shown = sorted("<computed>" if p is None else "." + ".".join(p) for p in rpaths)
            rep.add("C04-5", inst, where, ok,
                    "old part read from the source's .%s" % ".".join(wpath) if ok else
                    "the copy's .%s is built from old ++ new, but the old part `%s` is read from %s of the source, not from .%s: the carried quantity is not the one the copy stores" % (
                        ".".join(wpath), src(o)[:40], ", ".join(shown), ".".join(wpath)), {"read": shown})


def strategy_blocks(idx: ProgramIndex, rep: Report):
    D = idx.find_class("DefaultPredictionStrategy")
    n = 0
    for cls in idx.subclasses(D):
        fi = cls.methods.get("get_fantasy_strategy")
        if fi is None or all(isinstance(s, ast.Raise) for s in body_without_docstring(fi.node)):
            continue
        n += 1
        sn = fi.params[0]
        probs = []
        sinks = 0
        for p in enumerate_paths(body_without_docstring(fi.node)):
            if p.outcome != RETURN:
                continue
            be = BlockEval({"%s.num_train" % sn})
            psinks = 0
            for stp in p.steps:
                if stp.kind != "stmt":
                    continue
                node = stp.node
                # sinks first (they read the environment as it is before this statement's own binding)
                for c in calls_in(node):
                    if isinstance(c.func, ast.Attribute) and c.func.attr == "cat_rows" and len(c.args) == 2:
                        psinks += 1
                        got = be.ev(c.args[0])
                        if got != ("mat", NEW, OLD):
                            probs.append("cat_rows receives `%s` typed %s as cross covariance, expected NEW x OLD" % (src(c.args[0]), show(got)))
                    if isinstance(c.func, ast.Attribute) and src(c.func).endswith("train_prior_dist.__class__") and len(c.args) == 2:
                        a0, a1 = be.ev(c.args[0]), be.ev(c.args[1])
                        if a0 == ("vec", ALL):
                            continue  # the joint prior handed to the new strategy
                        psinks += 1
                        if a0 != ("vec", NEW) or a1 != ("mat", NEW, NEW):
                            probs.append("the fantasy prior is built from (%s, %s), expected (NEW vector, NEW x NEW)" % (show(a0), show(a1)))
                    if isinstance(c.func, ast.Attribute) and c.func.attr == "prepare_dense_wmat" and len(c.args) == 1:
                        psinks += 1
                        got = be.ev(c.args[0])
                        if got != ("mat", NEW, NEW):
                            probs.append("the fantasy interpolation weights are built from `%s` typed %s, expected NEW x NEW" % (src(c.args[0]), show(got)))
                for sub in ast.walk(node):
                    if isinstance(sub, ast.BinOp) and isinstance(sub.op, ast.Sub) and isinstance(sub.left, ast.Name) and sub.left.id == "targets":
                        psinks += 1
                        r = sub.right
                        got = be.ev(r)
                        if got != ("vec", NEW):
                            probs.append("the fantasy targets are offset by `%s` typed %s, expected the NEW block of the prior mean" % (src(r), show(got)))
                if isinstance(node, ast.Assign) and len(node.targets) == 1:
                    t, v = node.targets[0], node.value
                    if isinstance(t, ast.Tuple) and isinstance(v, ast.Tuple) and [src(x) for x in v.elts] == ["full_output.mean", "full_output.lazy_covariance_matrix"]:
                        be.env[t.elts[0].id] = ("vec", ALL)
                        be.env[t.elts[1].id] = ("mat", ALL, ALL)
                    else:
                        be.assign(t, v)
            sinks = max(sinks, psinks)
        rep.add("C04-3", "%s:%s.get_fantasy_strategy[blocks]" % (cls.module.name, cls.qualname), fi.where, not probs and sinks >= 2,
                "%d consumers receive the fantasy (NEW) blocks of the joint prior split at num_train" % sinks if not probs and sinks >= 2 else ("; ".join(sorted(set(probs))) or "fewer than 2 typed consumers found"), {"sinks": sinks})
    rep.floor("C04-3", "fantasy strategy implementations", n, 2)


# ---- C04-4 ---------------------------------------------------------------------------------------------------------
def likelihood_copies(idx: ProgramIndex, rep: Report):
    n = 0
    for fi in idx.all_functions():
        if fi.cls is None or fi.name != "get_fantasy_likelihood":
            continue
        n += 1
        sn = fi.params[0]
        fresh = _fresh_locals(idx, fi)
        ok = True
        rets = [r.value for r in ast.walk(fi.node) if isinstance(r, ast.Return) and r.value is not None]
        for r in rets:
            if isinstance(r, ast.Name) and r.id in fresh:
                continue
            if isinstance(r, ast.Call) and ((chain(r.func) or "").split(".")[-1] == "deepcopy" or is_super_call(r, "get_fantasy_likelihood")):
                continue
            if _helper_call(idx, fi, r) is not None:
                continue  # a helper of the class that deep-copies self and returns the copy (analysed as part of the fantasy path)
            # a container of members: a new container built (starred) from a list every element of which is the fantasy likelihood of a member
            if isinstance(r, ast.Call) and chain(r.func) in ("%s.__class__" % sn, "type(%s)" % sn) and len(r.args) == 1 and isinstance(r.args[0], ast.Starred) and isinstance(r.args[0].value, ast.Name):
                lst = r.args[0].value.id
                defs = [a.value for a in ast.walk(fi.node) if isinstance(a, ast.Assign) and any(isinstance(t, ast.Name) and t.id == lst for t in a.targets)]
                if defs and all(isinstance(d, ast.ListComp) and isinstance(d.elt, ast.Call) and isinstance(d.elt.func, ast.Attribute) and d.elt.func.attr == "get_fantasy_likelihood" for d in defs):
                    continue
            ok = False
        rep.add("C04-4", "%s:%s" % (fi.module.name, fi.qualname), fi.where, ok and bool(rets), "returns a deep copy (or delegates to an implementation that does)" if ok else
                "get_fantasy_likelihood returns `%s`: the fantasy model would share (and later mutate) the source's likelihood" % ", ".join(src(r) for r in rets), {})
    rep.floor("C04-4", "get_fantasy_likelihood implementations", n, 3)


# ---- C04-7: the fantasy model keeps no lazily evaluated reference into the source ----------------------------------------
def lazy_references(idx: ProgramIndex, rep: Report):
    """The joint prior handed to get_fantasy_strategy becomes the new strategy's train_prior_dist.  Its covariance is a lazily
    evaluated kernel tensor, i.e. a reference to the kernel *module* that produced it, evaluated when the fantasy model first
    predicts.  If it was produced by the source model's modules, a later change of the source's hyperparameters changes the
    fantasy model's predictions.  It has to be produced by the copy (after the deepcopy) or be evaluated before it is handed over."""
    from ..symbolic import inline, walk_paths
    rep.rule("C04-7", "the joint prior stored in the fantasy strategy is produced by the copy's modules (or evaluated), not lazily by the source's")
    E = idx.find_class("ExactGP")
    fi = idx.method(E, "get_fantasy_model", own=True)
    sn = fi.params[0]
    copies = {n.targets[0].id for n in ast.walk(fi.node) if isinstance(n, ast.Assign) and isinstance(n.value, ast.Call) and (chain(n.value.func) or "").split(".")[-1] == "deepcopy" and isinstance(n.targets[0], ast.Name)}
    n = 0
    for path, seq in walk_paths(fi):
        for st, env in seq:
            if not isinstance(st, ast.stmt):
                continue
            for c in (x for x in ast.walk(st) if isinstance(x, ast.Call)):
                if not (isinstance(c.func, ast.Attribute) and c.func.attr == "get_fantasy_strategy"):
                    continue
                for i, a in enumerate(c.args):
                    v = inline(a, env)
                    # a distribution produced by calling a model: <model>.__call__(...) / super().__call__(...) / <model>(...)
                    if not (isinstance(v, ast.Call) and isinstance(v.func, ast.Attribute) and v.func.attr in ("__call__", "forward")):
                        continue
                    owner = v.func.value
                    by_source = (isinstance(owner, ast.Call) and chain(owner.func) == "super" and (not owner.args or src(owner.args[-1]) == sn)) or chain(owner) == sn
                    by_copy = (isinstance(owner, ast.Call) and chain(owner.func) == "super" and owner.args and src(owner.args[-1]) in copies) or chain(owner) in copies
                    inst = "%s:ExactGP.get_fantasy_model[joint prior -> get_fantasy_strategy arg %d]" % (E.module.name, i)
                    if any(o.rule == "C04-7" and o.instance == inst for o in rep.obligations):
                        continue
                    n += 1
                    ok = by_copy and not by_source
                    rep.add("C04-7", inst, "%s:%d" % (fi.module.relpath, c.lineno), ok,
                            "the joint prior is evaluated by the copy" if ok else
                            "the joint prior `%s` is produced by the source model's modules and handed over lazily: the fantasy strategy's train_prior_dist keeps a reference to the source's kernel, so changing the source afterwards changes the fantasy model's predictions" % " ".join(src(a).split())[:40], {})
    rep.floor("C04-7", "joint priors handed to get_fantasy_strategy", n, 1)


# ---- C04-8: the bordered-system residual is formed in one layout -----------------------------------------------------------
def residual_layout(idx: ProgramIndex, rep: Report):
    """In get_fantasy_strategy the residual y_f - m_f - U' alpha is the right-hand side of the small system.  U' alpha is a product
    with the flattened (point x task) cross covariance, i.e. a flat vector; in the multitask case targets and fantasy mean are
    (.., m, t)-shaped (`view(.., -1, num_tasks)`).  They have to be flattened (interleaved, like the covariance) before the
    subtraction; otherwise the shapes only broadcast for m = 1."""
    from ..symbolic import inline, walk_paths
    rep.rule("C04-8", "multitask fantasies: targets and fantasy mean are flattened like the covariance before the flat cross term is subtracted")
    D = idx.find_class("DefaultPredictionStrategy")
    fi = idx.method(D, "get_fantasy_strategy", own=True)
    n = 0

    def kind(e: ast.AST) -> str:
        """NAT: carries an explicit (.., points, tasks) view; FLAT: a product with a covariance block; ?: neither"""
        t = " ".join(src(e).split())
        if isinstance(e, ast.Call) and isinstance(e.func, ast.Attribute) and e.func.attr in ("reshape", "view", "flatten") and e.args and src(e.args[-1]) == "-1":
            return "FLAT"
        if isinstance(e, ast.Call) and chain(e.func) in ("torch.einsum", "torch.matmul"):
            return "FLAT"
        if isinstance(e, ast.Call) and isinstance(e.func, ast.Attribute) and e.func.attr in ("matmul",):
            return "FLAT"
        if isinstance(e, ast.Subscript):
            return kind(e.value)
        if isinstance(e, ast.Call) and isinstance(e.func, ast.Attribute) and e.func.attr == "view" and len(e.args) >= 2 and "num_tasks" in src(e.args[-1]) or "event_shape[-1]" in t[-40:]:
            return "NAT"
        if isinstance(e, ast.BinOp) and isinstance(e.op, (ast.Add, ast.Sub)):
            a, b = kind(e.left), kind(e.right)
            if "MIX" in (a, b) or ({a, b} == {"NAT", "FLAT"}):
                return "MIX"
            return a if a != "?" else b
        return "?"

    seen = set()
    for path, seq in walk_paths(fi):
        multitask = None
        for s_ in path.steps:
            if s_.kind == "assume" and "isinstance(full_output, MultitaskMultivariateNormal)" in " ".join(src(s_.node).split()):
                neg = src(s_.node).strip().startswith("not ")
                multitask = (bool(s_.truth) != neg)
        if not multitask:
            continue
        for st, env in seq:
            if isinstance(st, ast.Assign) and isinstance(st.value, ast.BinOp) and isinstance(st.value.op, ast.Sub) and len(st.targets) == 1 and isinstance(st.targets[0], ast.Name):
                v = inline(st.value, env)
                k = kind(v)
                if k == "?" or st.lineno in seen:
                    continue
                # only residuals that involve the cross term
                if not any(isinstance(x, ast.Call) and chain(x.func) == "torch.einsum" for x in ast.walk(v)):
                    continue
                seen.add(st.lineno)
                n += 1
                ok = k != "MIX"
                rep.add("C04-8", "%s:DefaultPredictionStrategy.get_fantasy_strategy[residual, multitask]" % D.module.name, "%s:%d" % (fi.module.relpath, st.lineno), ok,
                        "targets, fantasy mean and cross term are combined in one layout" if ok else
                        "`%s` subtracts the flat (points x tasks) cross term from (.., m, t)-shaped targets / fantasy mean: the shapes broadcast only for a single fantasy point" % " ".join(src(st.value).split())[:60], {})
    rep.floor("C04-8", "multitask residuals of the bordered system", n, 1)


# ---- C04-9 ---------------------------------------------------------------------------------------------------------
def fantasy_noise_forwarded(idx: ProgramIndex, rep: Report):
    """get_fantasy_strategy(..., **kwargs) receives the observation noise of the new points in kwargs and turns it into the fantasy
    likelihood (which then stores old ++ new noise).  Whenever the update itself asks that likelihood for the noise of the *new* points
    only - a call on the fantasy likelihood or on one of its attributes - it has to forward **kwargs: a fixed-noise model cannot know
    the noise of m new points from its n + m stored values."""
    rep.rule("C04-9", "inside get_fantasy_strategy every evaluation of the fantasy likelihood (the noise of the new points) forwards **kwargs")
    n = 0
    for cls in idx.package_classes():
        fi = cls.methods.get("get_fantasy_strategy")
        if fi is None:
            continue
        kwn = fi.node.args.kwarg.arg if fi.node.args.kwarg else None
        liks = {a.targets[0].id for a in ast.walk(fi.node) if isinstance(a, ast.Assign) and len(a.targets) == 1 and isinstance(a.targets[0], ast.Name)
                and isinstance(a.value, ast.Call) and isinstance(a.value.func, ast.Attribute) and a.value.func.attr == "get_fantasy_likelihood"}
        for c in calls_in(fi.node):
            recv = c.func
            base = recv
            while isinstance(base, ast.Attribute):
                base = base.value
            if not (isinstance(base, ast.Name) and base.id in liks):
                continue
            if isinstance(recv, ast.Attribute) and recv.attr in ("train", "eval", "to", "double", "float", "named_parameters", "parameters", "get_fantasy_likelihood"):
                continue
            n += 1
            fw = kwn is not None and any(k.arg is None and isinstance(k.value, ast.Name) and k.value.id == kwn for k in c.keywords)
            import copy as _copy
            anon = _copy.deepcopy(c.func)
            for x in ast.walk(anon):
                if isinstance(x, ast.Name):
                    x.id = "_"
            rep.add("C04-9", "%s:%s.get_fantasy_strategy[%s(...)]" % (cls.module.name, cls.qualname, src(anon)), "%s:%d" % (fi.module.relpath, c.lineno), fw,
                    "the noise keywords are forwarded" if fw else
                    "`%s` evaluates the fantasy likelihood for the new points without **%s: a FixedNoiseGaussianLikelihood then compares the m new points with its n + m stored noises and returns a zero operator (the update raises / uses no noise)" % (" ".join(src(c).split())[:70], kwn or "kwargs"), {})
    rep.floor("C04-9", "evaluations of the fantasy likelihood inside get_fantasy_strategy", n, 2)


# ---- C04-10 --------------------------------------------------------------------------------------------------------
def symmetric_expansion(idx: ProgramIndex, rep: Report, fns):
    """old ++ new along the data axis needs both operands in one batch shape.  Either side may be the one that lacks batch dimensions (a
    batch model receiving an observation shared by the batch; a fantasy model receiving a shared observation; shared inputs with
    per-fantasy noise), so a concatenation whose operands are brought to a common batch shape must expand *both* of them to a shape that
    both determine.  Expanding one side to the other's shape (under a test of their ranks) covers one direction only."""
    rep.rule("C04-10", "old ++ new concatenations expand both operands to a common batch shape (no one-sided expand of the old part to the new part's shape)")
    from ..symbolic import inline, walk_paths
    n = 0
    for fi in fns:
        seen = {}
        for path, seq in walk_paths(fi):
            for st, env in seq:
                if not isinstance(st, ast.stmt):
                    continue
                for c in (x for x in ast.walk(st) if isinstance(x, ast.Call) and chain(x.func) == "torch.cat" and x.args and isinstance(x.args[0], (ast.List, ast.Tuple)) and len(x.args[0].elts) == 2):
                    ops = [inline(e, env) for e in c.args[0].elts]
                    # operands that are comprehension variables over (zipped) lists: judge the element expression of the list they run over
                    comp = next((x for x in ast.walk(st) if isinstance(x, (ast.ListComp, ast.GeneratorExp)) and any(y is c for y in ast.walk(x.elt))), None)
                    if comp is not None:
                        bind = {}
                        for g in comp.generators:
                            its = [g.iter]
                            tg = [g.target]
                            if isinstance(g.iter, ast.Call) and (chain(g.iter.func) or "").split(".")[-1] in ("zip", "length_safe_zip") and isinstance(g.target, ast.Tuple):
                                its, tg = list(g.iter.args), list(g.target.elts)
                            for t_, i_ in zip(tg, its):
                                if isinstance(t_, ast.Name):
                                    src_list = inline(i_, env)
                                    if isinstance(src_list, (ast.ListComp, ast.GeneratorExp)):
                                        bind[t_.id] = src_list.elt
                        ops = [bind.get(o.id, o) if isinstance(o, ast.Name) else o for o in ops]
                    exp = [[m for m in ast.walk(o) if isinstance(m, ast.Call) and isinstance(m.func, ast.Attribute) and m.func.attr in ("expand", "expand_as", "repeat")] for o in ops]
                    key = c.lineno
                    rec = seen.setdefault(key, {"paths": 0, "one_sided": [], "both": 0, "none": 0})
                    rec["paths"] += 1
                    if bool(exp[0]) != bool(exp[1]):
                        which = 0 if exp[0] else 1
                        rec["one_sided"].append("on a path only the %s operand is expanded (`%s`)" % ("first" if which == 0 else "second", " ".join(src(exp[which][0]).split())[:70]))
                    elif exp[0]:
                        rec["both"] += 1
                    else:
                        rec["none"] += 1
        for line, rec in sorted(seen.items()):
            if not rec["one_sided"] and not rec["both"]:
                continue  # no batch alignment attempted at this site: nothing to judge here
            n += 1
            ok = not rec["one_sided"]
            rep.add("C04-10", "%s:%s[torch.cat old ++ new]" % (fi.module.name, fi.qualname), "%s:%d" % (fi.module.relpath, line), ok,
                    "both operands are expanded to a common batch shape on every path" if ok else
                    "; ".join(sorted(set(rec["one_sided"]))) + ": the other operand is assumed to have the larger batch shape already - a batch model receiving a shared observation (or a fantasy model receiving one) raises", {})
    rep.floor("C04-10", "batch-aligned old ++ new concatenations", n, 1)


# ---- C04-11 --------------------------------------------------------------------------------------------------------
def fantasy_noise_kept(idx: ProgramIndex, rep: Report):
    """The incremental update in get_fantasy_strategy evaluates the fantasy likelihood on the new points *with* the caller's `noise=`
    (C04-9), and every noise model documents 'if a noise kwarg is provided, this noise is used directly'.  Whatever the fantasy model
    later recomputes from its stored likelihood (mean cache, exact covariance path) uses the noise that the *fantasy likelihood* holds.
    The two agree only if get_fantasy_likelihood carries the keyword into the copy: for a likelihood class whose noise model honours
    `noise=`, the resolved get_fantasy_likelihood must consult its kwargs."""
    rep.rule("C04-11", "a likelihood whose noise model honours a `noise=` keyword carries that noise into its fantasy likelihood (get_fantasy_likelihood consults kwargs)")
    try:
        base = idx.find_class("_GaussianLikelihoodBase")
    except AnalysisError:
        return
    n = 0
    for cls in sorted([base] + list(idx.subclasses(base)), key=lambda c: c.qualname):
        init = cls.methods.get("__init__")
        if init is None:
            continue
        noise_classes = []
        for c in calls_in(init.node):
            nm = (chain(c.func) or "").split(".")[-1]
            if nm.endswith("Noise"):
                try:
                    noise_classes.append(idx.find_class(nm))
                except AnalysisError:
                    pass
        for N in noise_classes:
            fwd = N.lookup("forward")
            if fwd is None:
                continue
            honours = any(isinstance(x, ast.Compare) and isinstance(x.left, ast.Constant) and x.left.value == "noise" for x in ast.walk(fwd.node)) or \
                any(isinstance(x, ast.Compare) and isinstance(x.left, ast.Call) and isinstance(x.left.func, ast.Attribute) and x.left.func.attr == "get" and x.left.args and const_str(x.left.args[0]) == "noise" for x in ast.walk(fwd.node)) or \
                ("noise" in fwd.params and any(isinstance(x, ast.Compare) and isinstance(x.left, ast.Name) and x.left.id == "noise" for x in ast.walk(fwd.node)))
            if not honours:
                continue
            n += 1
            gfl = cls.lookup("get_fantasy_likelihood")
            kw = gfl.node.args.kwarg.arg if gfl is not None and gfl.node.args.kwarg else None
            consults = gfl is not None and kw is not None and any(
                (isinstance(x, ast.Subscript) and isinstance(x.value, ast.Name) and x.value.id == kw) or
                (isinstance(x, ast.Call) and isinstance(x.func, ast.Attribute) and x.func.attr in ("get", "pop") and isinstance(x.func.value, ast.Name) and x.func.value.id == kw) or
                (isinstance(x, ast.Compare) and any(isinstance(c_, ast.Name) and c_.id == kw for c_ in x.comparators))
                for x in ast.walk(gfl.node))
            rep.add("C04-11", "%s:%s[%s] -> get_fantasy_likelihood" % (cls.module.name, cls.qualname, N.name), (gfl or init).where, consults,
                    "the fantasy likelihood is built from the noise keyword" if consults else
                    "%s.forward uses a `noise=` keyword directly, so get_fantasy_strategy conditions the new points with the caller's noise, but %s.get_fantasy_likelihood ignores its keywords (%s): everything the fantasy model recomputes from its stored likelihood uses the old noise - the fantasy posterior is that of no single GP and changes with fast_pred_var" % (
                        N.name, cls.qualname, "inherited `deepcopy(self)`" if gfl is None or gfl.cls is not cls else "own implementation"), {})
    rep.floor("C04-11", "likelihood classes whose noise model honours noise=", n, 2)


# ---- C04-12 --------------------------------------------------------------------------------------------------------
def per_member_kwargs(idx: ProgramIndex, rep: Report):
    """The list containers hand every member its own keyword dictionary, built from the SHARED keywords of the call plus that member's entry
    (noise).  A loop that re-binds (or updates) the shared dictionary itself carries one member's entry over to the members after it - a
    member whose own entry is None then silently receives its predecessor's noise."""
    rep.rule("C04-12", "the per-member keyword dictionaries of the list containers are built from the shared keywords afresh: no loop re-binds or updates the shared dictionary")
    n = 0
    for cname in ("IndependentModelList", "LikelihoodList"):
        cls = idx.find_class(cname)
        for name, fi in sorted(cls.methods.items()):
            kw = fi.node.args.kwarg.arg if fi.node.args.kwarg is not None else None
            if kw is None:
                continue
            n += 1
            probs = []
            for loop in [x for x in ast.walk(fi.node) if isinstance(x, (ast.For, ast.While))]:
                for st in ast.walk(loop):
                    if isinstance(st, ast.Assign) and any(isinstance(t, ast.Name) and t.id == kw for t in st.targets) and any(isinstance(x, ast.Name) and x.id == kw for x in ast.walk(st.value)):
                        probs.append("line %d re-binds `%s` from itself inside a loop over the members (`%s`)" % (st.lineno, kw, " ".join(src(st).split())[:60]))
                    if isinstance(st, ast.Assign) and any(isinstance(t, ast.Subscript) and isinstance(t.value, ast.Name) and t.value.id == kw for t in st.targets):
                        probs.append("line %d stores a member's entry in the shared `%s` inside a loop" % (st.lineno, kw))
                    if isinstance(st, ast.Call) and isinstance(st.func, ast.Attribute) and st.func.attr in ("update", "setdefault", "pop") and isinstance(st.func.value, ast.Name) and st.func.value.id == kw:
                        probs.append("line %d mutates the shared `%s` inside a loop (`%s`)" % (st.lineno, kw, " ".join(src(st).split())[:50]))
            rep.add("C04-12", "%s:%s.%s[shared keywords]" % (cls.module.name, cname, name), fi.where, not probs,
                    "the shared keyword dictionary is not changed inside a loop over the members" if not probs else
                    "; ".join(sorted(set(probs))) + ": every later member whose own entry is None receives the previous member's entry (fantasy models: the noise of another model)", {}, trivial=not any(isinstance(x, (ast.For, ast.While)) for x in ast.walk(fi.node)))
    rep.floor("C04-12", "list-container methods with shared keywords", n, 4)


# ---- C04-13 --------------------------------------------------------------------------------------------------------
def member_argument_arity(idx: ProgramIndex, rep: Report):
    """The list containers split their arguments per member with _get_tensor_args, which yields one TUPLE per member (one entry for a
    tensor, several for a member with several inputs), and spread it into the member's method.  That is right for methods with
    *args (forward, __call__).  get_fantasy_model of the members takes exactly (inputs, targets): spreading `*inputs_` hands a member
    with two inputs three positional arguments - TypeError - although the member alone fantasizes with inputs=[x, i]."""
    rep.rule("C04-13", "a container that delegates get_fantasy_model to its members hands each member its inputs as one argument (tensor or list), not spread over the positional parameters of a method that has no *args")
    n = 0
    for fi in sorted(idx.all_functions(), key=lambda f: (f.module.name, f.qualname)):
        if fi.cls is None or fi.name != "get_fantasy_model":
            continue
        for c in calls_in(fi.node):
            if not (isinstance(c.func, ast.Attribute) and c.func.attr == "get_fantasy_model" and isinstance(c.func.value, ast.Name) and c.func.value.id != fi.params[0]):
                continue
            stars = [a for a in c.args if isinstance(a, ast.Starred)]
            if not stars:
                continue
            n += 1
            # the callee family: every get_fantasy_model in the package that a member can be
            fixed = [f for f in idx.all_functions() if f.cls is not None and f.name == "get_fantasy_model" and f is not fi and f.node.args.vararg is None]
            first = c.args[0]
            ok = not (isinstance(first, ast.Starred) and fixed)
            rep.add("C04-13", "%s:%s[member.get_fantasy_model arguments]" % (fi.module.name, fi.qualname), "%s:%d" % (fi.module.relpath, c.lineno), ok,
                    "the member's inputs are handed over as one argument" if ok else
                    "`%s` spreads the member's input tuple over the positional parameters of get_fantasy_model(inputs, targets) (no *args in %s): a member with several inputs (a Hadamard multitask GP, forward(x, i)) raises TypeError 'takes 3 positional arguments but 4 were given'" % (" ".join(src(c).split())[:60], ", ".join(sorted({f.cls.name for f in fixed}))[:80]), {})
    rep.floor("C04-13", "containers delegating get_fantasy_model to members", n, 1)


# ---- C04-14 --------------------------------------------------------------------------------------------------------
def woodbury_identity(idx: ProgramIndex, rep: Report):
    """The WISKI fantasy caches of InterpolatedPredictionStrategy invert K_UU^-1 + W D^-1 W' through the Woodbury identity: with
    L L' = W D^-1 W' the matrix that is solved against is Q = L' K_UU L + I.  The identity is written `.add_jitter(1.0)` - a
    call that looks like numerical regularisation but is the `+ I` of the formula.  The clause: every fantasy cache of the class that
    builds Q adds exactly the identity (an explicit constant 1), and the sibling caches agree."""
    rep.rule("C04-14", "the Woodbury matrix Q = L' K_UU L + I of the WISKI fantasy caches adds exactly the identity (add_jitter with the explicit constant 1) in every cache that builds it")
    S = idx.find_class("InterpolatedPredictionStrategy")
    n = 0
    for name, m in sorted(S.methods.items()):
        if not name.startswith("fantasy_"):
            continue
        for c in calls_in(m.node):
            if not (isinstance(c.func, ast.Attribute) and c.func.attr == "add_jitter"):
                continue
            # the receiver is a product L' (K L): a matmul chain
            recv = c.func.value
            if not any(isinstance(x, ast.Call) and isinstance(x.func, ast.Attribute) and x.func.attr == "matmul" for x in ast.walk(recv)) and not any(isinstance(x, ast.BinOp) and isinstance(x.op, ast.MatMult) for x in ast.walk(recv)):
                continue
            n += 1
            arg = c.args[0] if c.args else next((k.value for k in c.keywords if k.arg == "jitter_val"), None)
            ok = isinstance(arg, ast.Constant) and isinstance(arg.value, (int, float)) and not isinstance(arg.value, bool) and arg.value == 1
            rep.add("C04-14", "%s:InterpolatedPredictionStrategy.%s[Q = L'KL + I]" % (S.module.name, name), "%s:%d" % (m.module.relpath, c.lineno), ok,
                    "adds the identity: add_jitter(1)" if ok else
                    "`%s` adds %s to L' K_UU L instead of the identity of the Woodbury formula: the fantasy cache built from this Q is not the inverse of the updated K_UU^-1 + W D^-1 W' (the posterior of the fantasy model differs from conditioning on the concatenated data)" % (" ".join(src(c).split())[-60:], "the default jitter" if arg is None else "`%s`" % src(arg)), {})
    rep.floor("C04-14", "WISKI fantasy caches that build the Woodbury matrix", n, 2)
