"""C09 - structured kernels: the *abbreviation structure* clauses only.

C09-1  Kronecker operand order agrees with the layout convention: (data, task) for the interleaved layout - in MultitaskKernel.forward
       and in the multitask likelihood's noise (which swaps the operands exactly for interleaved=False)
C09-2  IndexKernel: the dense form (B B^T + diag(v)) and the operator form (Root(B) + Diag(v)) are built from the same factor and
       the same *constrained* variance
C09-3  MultitaskKernel evaluates the data kernel on (x1, x2) and reports num_tasks outputs per input
Equality of structured and dense linear algebra, SGPR/KISS-GP predictive equations and interpolation accuracy are numerical and
NOT decided.  (DESIGN.md section 9.7.)
"""
from __future__ import annotations

import ast
from typing import List, Set

from ..cfg import enumerate_paths, RETURN
from ..index import (AnalysisError, FuncInfo, ProgramIndex, body_without_docstring, calls_in, chain, norm, src)
from ..report import Report


SHAPE_METHODS = {"expand", "view", "reshape", "unsqueeze", "squeeze", "repeat", "contiguous", "to", "type_as", "clone", "detach", "index_select"}


def _data_nodes(e: ast.AST):
    """nodes that carry the data of e: arguments of shape-only methods are skipped"""
    if isinstance(e, ast.Call) and isinstance(e.func, ast.Attribute) and e.func.attr in SHAPE_METHODS:
        yield from _data_nodes(e.func.value)
        return
    if isinstance(e, ast.Attribute) and e.attr in ("dtype", "device", "shape"):
        return  # metadata only
    yield e
    for ch in ast.iter_child_nodes(e):
        if isinstance(ch, ast.expr):
            yield from _data_nodes(ch)
        elif isinstance(ch, ast.keyword) and ch.arg not in ("dtype", "device"):
            yield from _data_nodes(ch.value)


def _roots(fi: FuncInfo, e: ast.AST, seen=None) -> Set[str]:
    seen = seen if seen is not None else set()
    out: Set[str] = set()
    for n in _data_nodes(e):
        if isinstance(n, ast.Attribute):
            c = chain(n)
            if c and c.startswith("self.") and not c.endswith(".shape"):
                out.add(c.split(".")[1])
        if isinstance(n, ast.Name) and n.id not in seen and n.id != "self":
            seen.add(n.id)
            if n.id in fi.params:
                out.add("param:" + n.id)
            for a in ast.walk(fi.node):
                if isinstance(a, ast.Assign) and any(isinstance(t, ast.Name) and t.id == n.id for t in a.targets):
                    out |= _roots(fi, a.value, seen)
                elif isinstance(a, ast.Assign) and isinstance(a.targets[0], ast.Tuple):
                    t = a.targets[0]
                    for i, te in enumerate(t.elts):
                        if isinstance(te, ast.Name) and te.id == n.id:
                            if isinstance(a.value, ast.Tuple) and len(a.value.elts) == len(t.elts):
                                out |= _roots(fi, a.value.elts[i], seen)
                            else:
                                out |= _roots(fi, a.value, seen)
    return out


def run(idx: ProgramIndex, rep: Report, tier: str):
    rep.explanation = (
        "Only structural clauses of C09 are decided: provenance (def-use closure to self attributes and parameters) of the two "
        "operands of every Kronecker product that mixes a data-sized and a task-sized factor, against the layout convention of "
        "MultitaskMultivariateNormal (interleaved: flat index = point * t + task, i.e. data (x) task); the two representations of the "
        "IndexKernel matrix; the argument wiring of MultitaskKernel. Numerical equalities are not decided.")
    rep.rule("C09-1", "Kronecker operand order (data, task) for the interleaved layout; swapped exactly for interleaved=False")
    rep.rule("C09-2", "IndexKernel dense and operator forms use the same factor and the same constrained variance")
    rep.rule("C09-3", "MultitaskKernel evaluates the data kernel on (x1, x2) and reports num_tasks outputs per input")
    MK = idx.find_class("MultitaskKernel")
    fw = idx.method(MK, "forward", own=True)
    kr = [c for c in calls_in(fw.node) if (chain(c.func) or "").startswith("KroneckerProduct")]
    probs = []
    if len(kr) != 1 or len(kr[0].args) != 2:
        probs.append("expected one two-operand Kronecker product")
    else:
        a, b = _roots(fw, kr[0].args[0]), _roots(fw, kr[0].args[1])
        if not ("data_covar_module" in a and "task_covar_module" not in a):
            probs.append("first Kronecker operand derives from %s, expected the data kernel" % sorted(a))
        if not ("task_covar_module" in b and "data_covar_module" not in b):
            probs.append("second Kronecker operand derives from %s, expected the task kernel" % sorted(b))
    rep.add("C09-1", "%s:MultitaskKernel.forward[kron order]" % MK.module.name, fw.where, not probs, "K_data (x) K_task: the interleaved (point-major) layout of the multitask distribution" if not probs else "; ".join(probs), {})
    # data kernel wiring
    dcalls = [c for c in calls_in(fw.node) if isinstance(c.func, ast.Attribute) and chain(c.func.value) == "self.data_covar_module" or chain(c.func) == "self.data_covar_module"]
    dcalls = [c for c in dcalls if isinstance(c, ast.Call) and len(c.args) >= 2]
    ok = len(dcalls) == 1 and [src(x) for x in dcalls[0].args[:2]] == [fw.params[1], fw.params[2]]
    nopi = MK.methods.get("num_outputs_per_input")
    ok2 = nopi is not None and any(src(r.value) == "self.num_tasks" for r in ast.walk(nopi.node) if isinstance(r, ast.Return) and r.value is not None)
    rep.add("C09-3", "%s:MultitaskKernel[wiring]" % MK.module.name, fw.where, ok and ok2, "data kernel on (x1, x2); num_outputs_per_input = num_tasks" if ok and ok2 else "MultitaskKernel does not evaluate the data kernel on (x1, x2) or does not report num_tasks outputs per input", {})
    # likelihood noise
    L = idx.find_class("_MultitaskGaussianLikelihoodBase")
    sn = idx.method(L, "_shaped_noise_covar", own=True)
    probs = []
    seen_layouts = set()
    for n in ast.walk(sn.node):
        if isinstance(n, ast.If) and src(n.test) in ("interleaved", "not interleaved"):
            for branch, val in ((n.body, src(n.test) == "interleaved"), (n.orelse, src(n.test) != "interleaved")):
                for st in branch:
                    for c in calls_in(st):
                        if len(c.args) == 2 and (src(c.func) == "ckl_init" or (chain(c.func) or "").startswith("KroneckerProduct")):
                            a, b = _roots(sn, c.args[0]), _roots(sn, c.args[1])
                            # the identity over the data points is built from shape[-2]; the task factor from task noises
                            a_data = "param:shape" in a and not ({"raw_task_noises", "task_noise_covar_factor", "raw_task_noises_constraint"} & a)
                            b_data = "param:shape" in b and not ({"raw_task_noises", "task_noise_covar_factor", "raw_task_noises_constraint"} & b)
                            seen_layouts.add(val)
                            if val and not (a_data and not b_data):
                                probs.append("interleaved noise is not eye_data (x) task_noise")
                            if not val and not (b_data and not a_data):
                                probs.append("non-interleaved noise is not task_noise (x) eye_data")
    if seen_layouts != {True, False}:
        probs.append("the noise is not built for both layouts")
    rep.add("C09-1", "%s:_MultitaskGaussianLikelihoodBase._shaped_noise_covar[kron order]" % L.module.name, sn.where, not probs, "I_n (x) D_t when interleaved, D_t (x) I_n otherwise" if not probs else "; ".join(sorted(set(probs))), {})
    # IndexKernel
    IK = idx.find_class("IndexKernel")
    dense = idx.method(IK, "_eval_covar_matrix", own=True)
    op = idx.method(IK, "covar_matrix", own=True)
    probs = []
    for f, what in ((dense, "dense form"), (op, "operator form")):
        r = set()
        for ret in [x.value for x in ast.walk(f.node) if isinstance(x, ast.Return) and x.value is not None]:
            r |= _roots(f, ret)
        if not ({"covar_factor", "var"} <= r):
            probs.append("%s is built from %s, expected covar_factor and var" % (what, sorted(r)))
        if "raw_var" in r:
            probs.append("%s uses the raw variance parameter" % what)
    td = norm(dense.node)
    if " - " in td or ".sub(" in td:
        probs.append("dense form subtracts a term")
    plus = [n for n in ast.walk(dense.node) if isinstance(n, ast.BinOp) and isinstance(n.op, ast.Add)]
    mm = [n for n in ast.walk(dense.node) if isinstance(n, ast.BinOp) and isinstance(n.op, ast.MatMult)]
    if not plus or not mm or not any("transpose" in src(m.right) or ".mT" in src(m.right) or ".T" in src(m.right) for m in mm):
        probs.append("dense form is not B @ B^T + diag(v)")
    to = norm(op.node)
    if not ("RootLinearOperator" in to and "DiagLinearOperator" in to and ("PsdSumLinearOperator" in to or "SumLinearOperator" in to or " + " in to)):
        probs.append("operator form is not Root(B) + Diag(v)")
    fwd = idx.method(IK, "forward", own=True)
    uses = any(chain(c.func) == "self._eval_covar_matrix" or chain(c.func) == "self.covar_matrix" for c in calls_in(fwd.node)) or "self.covar_matrix" in src(fwd.node)
    if not uses:
        probs.append("forward does not look the entries up in the task covariance matrix")
    il = [c for c in calls_in(fwd.node) if (chain(c.func) or "").endswith("InterpolatedLinearOperator")]
    if il:
        kw = {k.arg: src(k.value) for k in il[0].keywords}
        if not (kw.get("left_interp_indices", "").startswith(fwd.params[1]) and kw.get("right_interp_indices", "").startswith(fwd.params[2])):
            probs.append("rows are not indexed by i1 and columns by i2")
    rep.add("C09-2", "%s:IndexKernel" % IK.module.name, dense.where, not probs, "B B^T + diag(var) (dense) and Root(B) + Diag(var) (operator); rows i1, columns i2" if not probs else "; ".join(sorted(set(probs))), {})
