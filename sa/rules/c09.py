"""C09 - structured kernels: the *abbreviation structure* clauses only.

C09-1  Kronecker operand order agrees with the layout convention: (data, task) for the interleaved layout - in MultitaskKernel.forward
       and in the multitask likelihood's noise (which swaps the operands exactly for interleaved=False)
C09-2  IndexKernel: the dense form (B B^T + diag(v)) and the operator form (Root(B) + Diag(v)) are built from the same factor and
       the same *constrained* variance
C09-3  MultitaskKernel evaluates the data kernel on (x1, x2) and reports num_tasks outputs per input
Equality of structured and dense linear algebra, SGPR/KISS-GP predictive equations and interpolation accuracy are numerical and
NOT decided.  (DESIGN.md section 9.7.)
"""
from __future__ import annotations

import ast
from typing import Dict, Tuple,  Optional,  List, Set

from ..cfg import enumerate_paths, RETURN
from ..index import (AnalysisError, FuncInfo, ProgramIndex, body_without_docstring, calls_in, chain, norm, src)
from ..report import Report


SHAPE_METHODS = {"expand", "view", "reshape", "unsqueeze", "squeeze", "repeat", "contiguous", "to", "type_as", "clone", "detach", "index_select"}


def _data_nodes(e: ast.AST):
    """nodes that carry the data of e: arguments of shape-only methods are skipped"""
    if isinstance(e, ast.Call) and isinstance(e.func, ast.Attribute) and e.func.attr in SHAPE_METHODS:
        yield from _data_nodes(e.func.value)
        return
    if isinstance(e, ast.Attribute) and e.attr in ("dtype", "device", "shape"):
        return  # metadata only
    yield e
    for ch in ast.iter_child_nodes(e):
        if isinstance(ch, ast.expr):
            yield from _data_nodes(ch)
        elif isinstance(ch, ast.keyword) and ch.arg not in ("dtype", "device"):
            yield from _data_nodes(ch.value)


def _roots(fi: FuncInfo, e: ast.AST, seen=None) -> Set[str]:
    seen = seen if seen is not None else set()
    out: Set[str] = set()
    for n in _data_nodes(e):
        if isinstance(n, ast.Attribute):
            c = chain(n)
            if c and c.startswith("self.") and not c.endswith(".shape"):
                out.add(c.split(".")[1])
        if isinstance(n, ast.Name) and n.id not in seen and n.id != "self":
            seen.add(n.id)
            if n.id in fi.params:
                out.add("param:" + n.id)
            for a in ast.walk(fi.node):
                if isinstance(a, ast.Assign) and any(isinstance(t, ast.Name) and t.id == n.id for t in a.targets):
                    out |= _roots(fi, a.value, seen)
                elif isinstance(a, ast.Assign) and isinstance(a.targets[0], ast.Tuple):
                    t = a.targets[0]
                    for i, te in enumerate(t.elts):
                        if isinstance(te, ast.Name) and te.id == n.id:
                            if isinstance(a.value, ast.Tuple) and len(a.value.elts) == len(t.elts):
                                out |= _roots(fi, a.value.elts[i], seen)
                            else:
                                out |= _roots(fi, a.value, seen)
    return out


# ---- C09-4: explicit (elementwise) Kronecker diagonals ---------------------------------------------------------------
CONTROL_C09 = '''
import torch
class ControlMultitask:
    def forward(self, x1, x2, diag=False, **params):
        covar_i = self.task_covar_module.covar_matrix
        data_diag = self.data_covar_module.forward(x1, x2, diag=True, **params)
        task_diag = covar_i.diagonal(dim1=-1, dim2=-2)
        good = data_diag.repeat_interleave(self.num_tasks, dim=-1) * task_diag.repeat(data_diag.size(-1))
        bad = torch.tile(data_diag, (self.num_tasks,)) * torch.tile(task_diag, (data_diag.size(-1),))
        return good if diag else bad
'''


def _replication(fi, e: ast.AST, depth: int = 0) -> Optional[str]:
    """index map of a replicated vector: 'SLOW' (element i of the result is v[i // k]: repeat_interleave), 'FAST' (v[i % len(v)]:
    tile / 1-d repeat), None if e is not a recognised replication"""
    if isinstance(e, ast.Name) and depth < 4:
        defs = [a.value for a in ast.walk(fi.node) if isinstance(a, ast.Assign) and len(a.targets) == 1 and isinstance(a.targets[0], ast.Name) and a.targets[0].id == e.id]
        kinds = {_replication(fi, d, depth + 1) for d in defs}
        return kinds.pop() if len(kinds) == 1 else None
    if isinstance(e, ast.Call):
        fn = chain(e.func) or ""
        if fn in ("torch.tile", "torch.repeat_interleave") and e.args:
            return "FAST" if fn == "torch.tile" else "SLOW"
        if isinstance(e.func, ast.Attribute):
            if e.func.attr == "repeat_interleave":
                return "SLOW"
            if e.func.attr in ("tile",):
                return "FAST"
            if e.func.attr == "repeat":
                # repeats of the last axis tile the vector; leading 1s keep batch axes
                lead = e.args[:-1]
                if all(isinstance(a, ast.Constant) and a.value == 1 for a in lead) or all(isinstance(a, ast.Starred) for a in lead):
                    return "FAST"
                return None
            if e.func.attr in ("to", "contiguous", "clone", "type_as"):
                return _replication(fi, e.func.value, depth)
    return None


def _base_vector(fi, e: ast.AST, depth: int = 0) -> ast.AST:
    """the vector that a replication expression replicates (its count arguments carry sizes of the *other* factor)"""
    if isinstance(e, ast.Name) and depth < 4:
        defs = [a.value for a in ast.walk(fi.node) if isinstance(a, ast.Assign) and len(a.targets) == 1 and isinstance(a.targets[0], ast.Name) and a.targets[0].id == e.id]
        if len(defs) == 1 and _replication(fi, defs[0]) is not None:
            return _base_vector(fi, defs[0], depth + 1)
        return e
    if isinstance(e, ast.Call) and _replication(fi, e) is not None:
        fn = chain(e.func) or ""
        if fn in ("torch.tile", "torch.repeat_interleave") and e.args:
            return _base_vector(fi, e.args[0], depth + 1)
        if isinstance(e.func, ast.Attribute):
            return _base_vector(fi, e.func.value, depth + 1)
    return e


def explicit_products(idx: ProgramIndex, rep: Report, funcs):
    """flat index = point * T + task (interleaved): in an elementwise product of a replicated data vector and a replicated task
    vector the data factor must vary slowly (repeat_interleave by T) and the task factor fast (tile by n)."""
    rep.rule("C09-4", "explicit Kronecker diagonals follow the interleaved layout: data factor repeat-interleaved (slow), task factor tiled (fast)")

    def sites(fi, data_attr="data_covar_module", task_attr="task_covar_module"):
        out = []
        for n in ast.walk(fi.node):
            pair = None
            if isinstance(n, ast.BinOp) and isinstance(n.op, ast.Mult):
                pair = (n.left, n.right)
            elif isinstance(n, ast.Call) and isinstance(n.func, ast.Attribute) and n.func.attr in ("mul", "mul_") and len(n.args) == 1:
                pair = (n.func.value, n.args[0])
            if not pair:
                continue
            ra, rb = _roots(fi, _base_vector(fi, pair[0])), _roots(fi, _base_vector(fi, pair[1]))
            da, ta = data_attr in ra, task_attr in ra
            db, tb = data_attr in rb, task_attr in rb
            if da and not ta and tb and not db:
                out.append((n, pair[0], pair[1]))
            elif db and not tb and ta and not da:
                out.append((n, pair[1], pair[0]))
        return out

    # positive control: the rule must see one conforming and one violating product in the fragment
    ctl = idx.load_source("gpytorch._verif_control_c09", CONTROL_C09)
    try:
        cf = ctl.classes["ControlMultitask"].methods["forward"]
        got = sorted((_replication(cf, d), _replication(cf, t)) for _, d, t in sites(cf))
        if got != [("FAST", "FAST"), ("SLOW", "FAST")]:
            raise AnalysisError("C09-4: positive control not matched (%s)" % got)
        rep.add("C09-4", "positive-control", "<control fragment>", True, "a tiled data factor is told apart from a repeat-interleaved one in the control fragment", trivial=True)
    finally:
        for k in [k for k in idx.classes if k[0] == "gpytorch._verif_control_c09"]:
            ci = idx.classes.pop(k)
            idx.by_name[ci.name].remove(ci)
        del idx.modules["gpytorch._verif_control_c09"]
    for fi in funcs:
        for n, d, t in sites(fi):
            kd, kt = _replication(fi, d), _replication(fi, t)
            inst = "%s:%s[%s]" % (fi.module.name, fi.qualname, norm(n)[:60])
            where = "%s:%d" % (fi.module.relpath, n.lineno)
            if kd is None and kt is None:
                rep.observe("C09-4", inst, where, "product of a data-derived and a task-derived factor without recognised replication: not an explicit Kronecker diagonal")
                continue
            bad = []
            if kd == "FAST":
                bad.append("the data factor `%s` is tiled (element i is data[i %% n]); the interleaved layout point*T+task needs data[i // T] (repeat_interleave)" % src(d)[:40])
            if kt == "SLOW":
                bad.append("the task factor `%s` is repeat-interleaved (element i is task[i // n]); the interleaved layout needs task[i %% T] (tile)" % src(t)[:40])
            rep.add("C09-4", inst, where, not bad, "data slow, task fast" if not bad else "; ".join(bad), {"data": kd, "task": kt})


def run(idx: ProgramIndex, rep: Report, tier: str):
    rep.explanation = (
        "Only structural clauses of C09 are decided: provenance (def-use closure to self attributes and parameters) of the two "
        "operands of every Kronecker product that mixes a data-sized and a task-sized factor, against the layout convention of "
        "MultitaskMultivariateNormal (interleaved: flat index = point * t + task, i.e. data (x) task); the two representations of the "
        "IndexKernel matrix; the argument wiring of MultitaskKernel. Numerical equalities are not decided.")
    rep.rule("C09-1", "Kronecker operand order (data, task) for the interleaved layout; swapped exactly for interleaved=False")
    rep.rule("C09-2", "IndexKernel dense and operator forms use the same factor and the same constrained variance")
    rep.rule("C09-3", "MultitaskKernel evaluates the data kernel on (x1, x2) and reports num_tasks outputs per input")
    MK = idx.find_class("MultitaskKernel")
    fw = idx.method(MK, "forward", own=True)
    kr = [c for c in calls_in(fw.node) if (chain(c.func) or "").startswith("KroneckerProduct")]
    probs = []
    if not kr:
        probs.append("no Kronecker product of the data and the task covariance")
    for k in kr:
        if len(k.args) != 2:
            probs.append("expected a two-operand Kronecker product")
            continue
        a, b = _roots(fw, k.args[0]), _roots(fw, k.args[1])
        if not ("data_covar_module" in a and "task_covar_module" not in a):
            probs.append("first Kronecker operand derives from %s, expected the data kernel" % sorted(a))
        if not ("task_covar_module" in b and "data_covar_module" not in b):
            probs.append("second Kronecker operand derives from %s, expected the task kernel" % sorted(b))
    rep.add("C09-1", "%s:MultitaskKernel.forward[kron order]" % MK.module.name, fw.where, not probs, "K_data (x) K_task: the interleaved (point-major) layout of the multitask distribution" if not probs else "; ".join(probs), {})
    # data kernel wiring
    dcalls = [c for c in calls_in(fw.node) if isinstance(c.func, ast.Attribute) and chain(c.func.value) == "self.data_covar_module" or chain(c.func) == "self.data_covar_module"]
    dcalls = [c for c in dcalls if isinstance(c, ast.Call) and len(c.args) >= 2]
    ok = len(dcalls) >= 1 and all([src(x) for x in c.args[:2]] == [fw.params[1], fw.params[2]] for c in dcalls)
    nopi = MK.methods.get("num_outputs_per_input")
    ok2 = nopi is not None and any(src(r.value) == "self.num_tasks" for r in ast.walk(nopi.node) if isinstance(r, ast.Return) and r.value is not None)
    rep.add("C09-3", "%s:MultitaskKernel[wiring]" % MK.module.name, fw.where, ok and ok2, "data kernel on (x1, x2); num_outputs_per_input = num_tasks" if ok and ok2 else "MultitaskKernel does not evaluate the data kernel on (x1, x2) or does not report num_tasks outputs per input", {})
    explicit_products(idx, rep, [fw] + [m for m in idx.find_class("LCMKernel").methods.values() if m.name == "forward"])
    # likelihood noise
    L = idx.find_class("_MultitaskGaussianLikelihoodBase")
    sn = idx.method(L, "_shaped_noise_covar", own=True)
    probs = []
    seen_layouts = set()
    from ..symbolic import inline, walk_paths
    all_params = sn.params + [a.arg for a in sn.node.args.kwonlyargs]  # positional or keyword-only
    ilv = "interleaved" if "interleaved" in all_params else None
    if ilv is None:
        raise AnalysisError("anchor vanished: the `interleaved` parameter of _shaped_noise_covar")
    TASK_ATTRS = {"raw_task_noises", "task_noise_covar_factor", "raw_task_noises_constraint", "task_noises"}

    def data_nodes(e):
        """sub-expressions that carry data: dtype/device metadata (keywords and `.dtype` / `.device` reads) is pruned"""
        if isinstance(e, ast.Attribute) and e.attr in ("dtype", "device"):
            return
        yield e
        for f, v in ast.iter_fields(e):
            if isinstance(e, ast.Call) and f == "keywords":
                for k in v:
                    if k.arg not in ("dtype", "device"):
                        yield from data_nodes(k.value)
                continue
            for ch in (v if isinstance(v, list) else [v]):
                if isinstance(ch, ast.AST):
                    yield from data_nodes(ch)

    def side(e) -> str:
        # the *size* of an operator decides its side: a constant diagonal is as large as its diag_shape says (its values may be
        # broadcast against anything); batch-only operations (expand, +, to) keep the side of the receiver
        if isinstance(e, ast.Call):
            ds = [k.value for k in e.keywords if k.arg == "diag_shape"]
            if ds:
                return side(ds[0])
            if isinstance(e.func, ast.Attribute) and e.func.attr in ("expand", "to", "add_jitter", "type", "double", "float", "unsqueeze", "repeat", "add", "__add__"):
                return side(e.func.value)
        if isinstance(e, ast.BinOp) and isinstance(e.op, ast.Add):
            l_, r_ = side(e.left), side(e.right)
            return l_ if l_ == r_ or r_ == "?" else (r_ if l_ == "?" else "?")
        attrs = {x.attr for x in data_nodes(e) if isinstance(x, ast.Attribute)}
        names = {x.id for x in data_nodes(e) if isinstance(x, ast.Name)}
        task = bool(attrs & TASK_ATTRS)
        data = sn.params[1] in names and not task
        return "task" if task else ("data" if data else "?")

    for path, seq in walk_paths(sn):
        val = None
        for s_ in path.steps:
            if s_.kind == "assume":
                t, neg = s_.node, False
                while isinstance(t, ast.UnaryOp) and isinstance(t.op, ast.Not):
                    t, neg = t.operand, not neg
                if isinstance(t, ast.Name) and t.id == ilv:
                    val = (s_.truth != neg)
        for st, env in seq:
            if not (isinstance(st, ast.Return) and st.value is not None):
                continue
            r = inline(st.value, env)
            for c in (x for x in ast.walk(r) if isinstance(x, ast.Call)):
                fn = (chain(c.func) or "").split(".")[-1]
                if fn.startswith("KroneckerProduct") and len(c.args) == 2:
                    sa_, sb_ = side(c.args[0]), side(c.args[1])
                    if {sa_, sb_} != {"data", "task"}:
                        continue
                    if val is None:
                        probs.append("a Kronecker noise term is built without deciding the layout (`%s` untested on the path)" % ilv)
                        continue
                    seen_layouts.add(val)
                    if val and (sa_, sb_) != ("data", "task"):
                        probs.append("interleaved noise is not eye_data (x) task_noise")
                    if not val and (sa_, sb_) != ("task", "data"):
                        probs.append("non-interleaved noise is not task_noise (x) eye_data")
    if seen_layouts != {True, False}:
        probs.append("the noise is not built for both layouts")
    rep.add("C09-1", "%s:_MultitaskGaussianLikelihoodBase._shaped_noise_covar[kron order]" % L.module.name, sn.where, not probs, "I_n (x) D_t when interleaved, D_t (x) I_n otherwise" if not probs else "; ".join(sorted(set(probs))), {})
    # IndexKernel
    IK = idx.find_class("IndexKernel")
    dense = idx.method(IK, "_eval_covar_matrix", own=True)
    op = idx.method(IK, "covar_matrix", own=True)
    probs = []
    for f, what in ((dense, "dense form"), (op, "operator form")):
        r = set()
        for ret in [x.value for x in ast.walk(f.node) if isinstance(x, ast.Return) and x.value is not None]:
            r |= _roots(f, ret)
        if not ({"covar_factor", "var"} <= r):
            probs.append("%s is built from %s, expected covar_factor and var" % (what, sorted(r)))
        if "raw_var" in r:
            probs.append("%s uses the raw variance parameter" % what)
    td = norm(dense.node)
    if " - " in td or ".sub(" in td:
        probs.append("dense form subtracts a term")
    plus = [n for n in ast.walk(dense.node) if isinstance(n, ast.BinOp) and isinstance(n.op, ast.Add)]
    mm = [n for n in ast.walk(dense.node) if isinstance(n, ast.BinOp) and isinstance(n.op, ast.MatMult)]
    if not plus or not mm or not any("transpose" in src(m.right) or ".mT" in src(m.right) or ".T" in src(m.right) for m in mm):
        probs.append("dense form is not B @ B^T + diag(v)")
    to = norm(op.node)
    if not ("RootLinearOperator" in to and "DiagLinearOperator" in to and ("PsdSumLinearOperator" in to or "SumLinearOperator" in to or " + " in to)):
        probs.append("operator form is not Root(B) + Diag(v)")
    fwd = idx.method(IK, "forward", own=True)
    uses = any(chain(c.func) == "self._eval_covar_matrix" or chain(c.func) == "self.covar_matrix" for c in calls_in(fwd.node)) or "self.covar_matrix" in src(fwd.node)
    if not uses:
        probs.append("forward does not look the entries up in the task covariance matrix")
    il = [c for c in calls_in(fwd.node) if (chain(c.func) or "").endswith("InterpolatedLinearOperator")]
    if il:
        kw = {k.arg: src(k.value) for k in il[0].keywords}
        if not (kw.get("left_interp_indices", "").startswith(fwd.params[1]) and kw.get("right_interp_indices", "").startswith(fwd.params[2])):
            probs.append("rows are not indexed by i1 and columns by i2")
    rep.add("C09-2", "%s:IndexKernel" % IK.module.name, dense.where, not probs, "B B^T + diag(var) (dense) and Root(B) + Diag(var) (operator); rows i1, columns i2" if not probs else "; ".join(sorted(set(probs))), {})
    grid_enumeration(idx, rep)
    evaluation_is_pure(idx, rep)
    same_points_same_matrix(idx, rep)
    exact_test_prior(idx, rep)
    grid_product_structure(idx, rep)
    wrappers_and_member_terms(idx, rep)
    flat_index_strides(idx, rep)
    sgpr_single_source(idx, rep)


# ---- C09-5: one enumeration order of the grid points for every producer and consumer ---------------------------------------
def grid_enumeration(idx: ProgramIndex, rep: Report):
    """The d-dimensional grid is flattened in four places: the list of grid points (create_data_from_grid), the Kronecker product
    K_UU of the per-dimension covariances (GridKernel.forward), the flat indices produced by cubic interpolation
    (Interpolation.interpolate) and the inducing points of GridInterpolationVariationalStrategy.  They must agree on which
    dimension varies fastest; otherwise W K_UU W^T pairs interpolation weights with the covariance of other grid points whenever
    the dimensions differ (grid size, bounds, ARD lengthscale) - invisible for identical dimensions."""
    rep.rule("C09-5", "grid points are enumerated in one order (which dimension varies fastest) by the grid, the Kronecker K_UU, the interpolation indices and the variational inducing points")
    found: Dict[str, Tuple[str, str]] = {}

    # (1) Interpolation.interpolate: stride of dimension i
    I = idx.find_class("Interpolation")
    it = idx.method(I, "interpolate", own=True)
    for loop in [n for n in ast.walk(it.node) if isinstance(n, ast.For)]:
        iv = loop.target.id if isinstance(loop.target, ast.Name) else None
        for a in ast.walk(loop):
            if isinstance(a, ast.Assign) and isinstance(a.value, ast.Call) and chain(a.value.func) in ("reduce", "functools.reduce") and len(a.value.args) >= 2 and isinstance(a.value.args[1], ast.Subscript) and isinstance(a.value.args[1].slice, ast.Slice):
                sl = a.value.args[1].slice
                coeff = a.targets[0].id if isinstance(a.targets[0], ast.Name) else None
                used = any(isinstance(c, ast.Call) and isinstance(c.func, ast.Attribute) and c.func.attr in ("mul", "mul_") and c.args and src(c.args[0]) == coeff for c in ast.walk(loop))
                if not used:
                    continue
                if sl.lower is None and sl.upper is not None and src(sl.upper) == iv:
                    found["interpolation indices"] = ("FIRST", "%s:%d" % (it.module.relpath, a.lineno))
                elif sl.upper is None and sl.lower is not None and src(sl.lower).replace(" ", "") == "%s+1" % iv:
                    found["interpolation indices"] = ("LAST", "%s:%d" % (it.module.relpath, a.lineno))
    # (2) GridKernel.forward: operand order of the Kronecker product (A (x) B: the LAST operand varies fastest), per mode
    G = idx.find_class("GridKernel")
    gf = idx.method(G, "forward", own=True)

    def order_of(v: ast.AST, depth: int = 0):
        """-> {interpolation_mode: 'FIRST'|'LAST'|'?'} for the sequence expression handed (starred) to the Kronecker product"""
        if isinstance(v, ast.Subscript) and isinstance(v.slice, ast.Slice) and v.slice.step is not None and src(v.slice.step) == "-1" and v.slice.lower is None and v.slice.upper is None:
            return {True: "FIRST", False: "FIRST"}  # reversed list: dimension 0 is the last operand
        if isinstance(v, ast.Name):
            return {True: "LAST", False: "LAST"}
        if isinstance(v, ast.IfExp) and chain(v.test) == "self.interpolation_mode":
            a_, b_ = order_of(v.body, depth + 1), order_of(v.orelse, depth + 1)
            return {True: a_[True], False: b_[False]}
        if isinstance(v, ast.Call) and isinstance(v.func, ast.Attribute) and chain(v.func.value) == "self" and depth < 2:
            h = G.lookup(v.func.attr)
            if h is not None:
                rets = [r.value for r in ast.walk(h.node) if isinstance(r, ast.Return) and r.value is not None]
                outs = [order_of(r, depth + 1) for r in rets]
                if len(outs) == 1:
                    return outs[0]
        return {True: "?", False: "?"}

    per_mode = {True: set(), False: set()}
    where2 = gf.where
    for c in calls_in(gf.node):
        if (chain(c.func) or "").split(".")[-1] == "KroneckerProductLinearOperator" and len(c.args) == 1 and isinstance(c.args[0], ast.Starred):
            where2 = "%s:%d" % (gf.module.relpath, c.lineno)
            o = order_of(c.args[0].value)
            per_mode[True].add(o[True])
            per_mode[False].add(o[False])
    kron = {}
    for mode in (True, False):
        if len(per_mode[mode]) == 1 and "?" not in per_mode[mode]:
            kron[mode] = next(iter(per_mode[mode]))
        elif per_mode[mode]:
            kron[mode] = "MIXED" if "?" not in per_mode[mode] else None
    if kron.get(True):
        found["Kronecker K_UU (interpolation mode)"] = (kron[True], where2)
    if kron.get(False):
        found["Kronecker K_UU (explicit grid)"] = (kron[False], where2)
    # (3) create_data_from_grid
    gm = idx.module(idx.package + ".utils.grid")
    cd = gm.functions.get("create_data_from_grid")
    if cd is not None:
        t = None
        for c in calls_in(cd.node):
            if isinstance(c.func, ast.Attribute) and c.func.attr == "reshape":
                recv = c.func.value
                if isinstance(recv, ast.Call) and isinstance(recv.func, ast.Attribute) and recv.func.attr == "permute" and "reversed" in src(recv):
                    t = "FIRST"  # axes reversed before the row-major flattening: axis 0 ends up last, i.e. fastest
                elif [src(a) for a in c.args][:1] == ["-1"]:
                    t = t or "LAST"
        if t:
            found["grid points"] = (t, cd.where)
    # (4) GridInterpolationVariationalStrategy.__init__: stride grid_size ** i
    V = idx.find_class("GridInterpolationVariationalStrategy")
    vi = idx.method(V, "__init__", own=True)
    for c in calls_in(vi.node):
        if chain(c.func) == "torch.cartesian_prod":
            # cartesian_prod(g_0, ..., g_{d-1}) enumerates with the last factor varying fastest; reversed arguments flip that
            rev = any(isinstance(a, ast.Starred) and ("[::-1]" in src(a.value) or "reversed" in src(a.value)) for a in c.args)
            found["variational inducing points"] = ("FIRST" if rev else "LAST", "%s:%d" % (vi.module.relpath, c.lineno))
    for sub in ast.walk(vi.node):
        # inducing_points[<lo> : <hi>, <dim>] = ...: the block of rows that shares one coordinate value in dimension <dim>
        if isinstance(sub, ast.Subscript) and isinstance(sub.slice, ast.Tuple) and len(sub.slice.elts) == 2 and isinstance(sub.slice.elts[0], ast.Slice) and isinstance(sub.slice.elts[1], ast.Name):
            dimv = sub.slice.elts[1].id
            lo = sub.slice.elts[0].lower
            if lo is not None:
                pw = [x for x in ast.walk(lo) if isinstance(x, ast.BinOp) and isinstance(x.op, ast.Pow)]
                if pw and src(pw[0].right) == dimv:
                    found["variational inducing points"] = ("FIRST", "%s:%d" % (vi.module.relpath, sub.lineno))  # stride g**dim
                elif pw:
                    found["variational inducing points"] = ("LAST", "%s:%d" % (vi.module.relpath, sub.lineno))
    groups = {
        "the flat indices of cubic interpolation": ["Kronecker K_UU (interpolation mode)", "interpolation indices", "variational inducing points"],
        "the explicit list of grid points": ["Kronecker K_UU (explicit grid)", "grid points"],
    }
    for what in [w for g in groups.values() for w in g]:
        if what not in found:
            rep.observe("C09-5", "gpytorch:<grid enumeration>[%s]" % what, "gpytorch/", "enumeration order of the %s not recognised (not decided)" % what)
    if len(found) < 4:
        raise AnalysisError("C09-5: fewer than four of the five grid enumerations were recognised (%s)" % sorted(found))
    for gname, members in groups.items():
        present = [m for m in members if m in found]
        if not present:
            continue
        # the member that deviates from the majority is reported (ties: the Kronecker product is the reference)
        votes: Dict[str, int] = {}
        for m_ in present:
            votes[found[m_][0]] = votes.get(found[m_][0], 0) + 1
        best = max(votes.values())
        winners = [k_ for k_, v_ in votes.items() if v_ == best]
        ref = found[present[0]][0] if found[present[0]][0] in winners else winners[0]
        ref_name = next(m_ for m_ in present if found[m_][0] == ref)
        for what in present:
            kind, where = found[what]
            ok = kind == ref
            rep.add("C09-5", "gpytorch:<grid enumeration>[%s]" % what, where, ok,
                    "dimension 0 varies %s, consistently within the group indexed by %s" % ("fastest" if kind == "FIRST" else "slowest", gname) if ok else
                    "the %s enumerate the grid with dimension 0 varying %s, but the %s with dimension 0 varying %s (both are indexed by %s): for dimensions that differ (grid size, bounds, ARD lengthscale) interpolation weights / grid points are paired with the covariance of other grid points" % (
                        what, {"FIRST": "fastest", "LAST": "slowest"}.get(kind, kind), ref_name, {"FIRST": "fastest", "LAST": "slowest"}.get(ref, ref), gname), {"order": kind})


# ---- C09-6 ---------------------------------------------------------------------------------------------------------
def evaluation_is_pure(idx: ProgramIndex, rep: Report):
    """A kernel-specific prediction strategy caches train-side quantities (K_UU, interpolation weights of the training inputs, the mean
    cache) from one evaluation of the kernel and combines them with a later evaluation at the test inputs.  That is the dense
    conditional 'for the approximate kernel matrix they represent' only if both evaluations speak about the same approximate kernel:
    evaluating a kernel must not rewrite the structural state the approximation is defined by (grid, bounds, feature weights).  Allowed
    in forward/__call__: cache attributes, added-loss bookkeeping, and one-time initialisation guarded by `not hasattr(self, <what is
    initialised>)`."""
    rep.rule("C09-6", "evaluating a kernel does not rewrite the structural state its approximation is defined by (grid, bounds, feature weights): only caches, loss bookkeeping and one-time guarded initialisation")
    from ..index import walk_no_nested
    from . import c03
    K = idx.cls(idx.package + ".kernels.kernel", "Kernel")
    caches = {a for _c, a, _w in c03.attribute_caches(idx)}
    n = 0

    def registers(cls, mname, seen=None) -> Set[str]:
        """names registered (transitively) by self.mname"""
        seen = seen or set()
        if mname in seen:
            return set()
        seen.add(mname)
        fi = cls.lookup(mname)
        out: Set[str] = set()
        if fi is None or not fi.module.name.startswith(idx.package):
            return out
        for c in calls_in(fi.node):
            if isinstance(c.func, ast.Attribute) and chain(c.func.value) == "self":
                if c.func.attr in ("register_buffer", "register_parameter") and c.args and isinstance(c.args[0], ast.Constant):
                    out.add(c.args[0].value)
                elif c.func.attr == "register_buffer_list" and c.args and isinstance(c.args[0], ast.Constant):
                    out.add(c.args[0].value + "_*")
                else:
                    out |= registers(cls, c.func.attr, seen)
            elif chain(c.func) == "setattr" and len(c.args) == 3 and src(c.args[0]) == "self":
                out.add("<setattr %s>" % src(c.args[1])[:30])
        return out

    def guards_of(fn, node):
        out = []

        def rec(stmts, acc):
            for st in stmts:
                if any(x is node for x in ast.walk(st)):
                    if isinstance(st, ast.If):
                        if any(x is node for b in st.body for x in ast.walk(b)):
                            rec(st.body, acc + [(st.test, True)])
                        elif any(x is node for b in st.orelse for x in ast.walk(b)):
                            rec(st.orelse, acc + [(st.test, False)])
                        else:
                            out.extend(acc)
                    elif isinstance(st, (ast.For, ast.While, ast.With, ast.Try)):
                        for blk in (getattr(st, "body", []), getattr(st, "orelse", []), getattr(st, "finalbody", [])):
                            if any(x is node for b in blk for x in ast.walk(b)):
                                rec(blk, acc)
                    else:
                        out.extend(acc)
                    return
        rec(fn.body, [])
        return out

    for cls in sorted(idx.package_classes(), key=lambda c: (c.module.name, c.qualname)):
        if not cls.is_subclass_of(K):
            continue
        for mn in ("forward", "__call__"):
            fi = cls.methods.get(mn)
            if fi is None:
                continue
            n += 1
            probs = []
            for node in walk_no_nested(fi.node):
                what = None
                names: Set[str] = set()
                if isinstance(node, (ast.Assign, ast.AugAssign)):
                    for t in (node.targets if isinstance(node, ast.Assign) else [node.target]):
                        if isinstance(t, ast.Attribute) and chain(t.value) == "self":
                            a = t.attr
                            if a in caches or a.lstrip("_").startswith("cached") or "cache" in a or a in ("_x2_subs",):
                                continue
                            what, names = "self.%s = ..." % a, {a}
                elif isinstance(node, ast.Expr) and isinstance(node.value, ast.Call) and isinstance(node.value.func, ast.Attribute) and chain(node.value.func.value) == "self":
                    m = node.value.func.attr
                    if m in ("update_added_loss_term",):
                        continue
                    regs = registers(cls, m) if m not in ("register_buffer", "register_parameter") else ({node.value.args[0].value} if node.value.args and isinstance(node.value.args[0], ast.Constant) else {"?"})
                    if regs:
                        what, names = "self.%s(...) [writes %s]" % (m, ", ".join(sorted(regs))[:50]), regs
                if what is None:
                    continue
                gs = guards_of(fi.node, node)
                one_time = any(truth and isinstance(t, ast.UnaryOp) and isinstance(t.op, ast.Not) and isinstance(t.operand, ast.Call) and chain(t.operand.func) == "hasattr"
                               and len(t.operand.args) == 2 and isinstance(t.operand.args[1], ast.Constant) and t.operand.args[1].value in names for t, truth in gs)
                if not one_time:
                    probs.append("%s (line %d) runs on evaluation%s" % (what, node.lineno, "" if not gs else " under a data-dependent / never-latched condition"))
            rep.add("C09-6", "%s:%s.%s" % (cls.module.name, cls.qualname, mn), fi.where, not probs,
                    "evaluation writes caches / loss bookkeeping / one-time initialisation only" if not probs else
                    "; ".join(probs) + ": the approximate kernel changes between the evaluation that filled the prediction caches and the evaluation at the test inputs, so the strategy's result is not the dense conditional of any one kernel matrix", {})
    rep.floor("C09-6", "kernel forward / __call__ implementations", n, 30)


# ---- C09-7 ---------------------------------------------------------------------------------------------------------
def same_points_same_matrix(idx: ProgramIndex, rep: Report):
    """`if torch.equal(x1, x2)` lets a kernel pick a cheaper representation when it is asked for K(X, X).  The kernel cannot know *why*
    the two arguments coincide (a cross-covariance K(X*, X) with test inputs equal to the training inputs takes the same branch), so the
    branch may change the representation but not the matrix: every result of the equal-branch must also be a result of the general
    branch with x2 := x1.  Decided on inlined return expressions: syntactic equality after the substitution, else equality of
    non-commutative normal forms (root constructors R -> R R^T, products, sums, transposes; everything else an opaque symbol)."""
    rep.rule("C09-7", "a branch on torch.equal(x1, x2) changes the representation, not the matrix: its results are results of the general branch at x2 := x1")
    from ..symbolic import inline, walk_paths
    from ..domains.linalg import LinEval, TRANSPARENT, TRANSPARENT_FUNCS, SUM_CTORS, PROD_CTORS, ROOT_CTORS, ADDED_DIAG_CTORS
    import copy as _copy
    n = 0
    KNOWN_METHODS = set(TRANSPARENT) | {"transpose", "t", "matmul", "mm", "bmm", "mul", "neg", "add", "sub", "solve", "inv_matmul", "__matmul__", "__add__"}
    KNOWN_FUNCS = set(TRANSPARENT_FUNCS) | set(SUM_CTORS) | set(PROD_CTORS) | set(ROOT_CTORS) | set(ADDED_DIAG_CTORS)

    def classify(e):
        if isinstance(e, (ast.BinOp, ast.UnaryOp)):
            return None
        if isinstance(e, ast.Attribute) and e.attr in ("mT", "T"):
            return None
        if isinstance(e, ast.Call):
            fn = chain(e.func) or ""
            short = fn.split(".")[-1]
            if isinstance(e.func, ast.Attribute) and fn.split(".")[0] != "torch" and e.func.attr in KNOWN_METHODS:
                return None
            if short in KNOWN_FUNCS or fn in ("torch.matmul", "torch.mm", "torch.bmm", "torch.add", "torch.sub", "torch.addmm"):
                return None
        if isinstance(e, ast.Constant):
            return None
        return "<" + " ".join(src(e).split()) + ">"

    class Subst(ast.NodeTransformer):
        def __init__(self, a, b):
            self.a, self.b = a, b

        def visit_Name(self, node):
            return ast.copy_location(ast.Name(id=self.a, ctx=node.ctx), node) if node.id == self.b else node

    for fi in sorted(idx.all_functions(), key=lambda f: (f.module.name, f.qualname)):
        if not fi.module.name.startswith(idx.package + ".kernels") or fi.cls is None:
            continue
        if not any(chain(c.func) == "torch.equal" for c in calls_in(fi.node)):
            continue
        params = set(fi.params[1:])
        groups: Dict[Tuple[str, str], Dict[bool, list]] = {}
        for path, seq in walk_paths(fi, limit=4000):
            if path.outcome != RETURN or path.end is None or getattr(path.end, "value", None) is None:
                continue
            env_end = None
            verdicts = {}
            for st, env in seq:
                if st is path.end:
                    env_end = env
                if getattr(st, "kind", "") == "assume":
                    t = inline(st.node, env)
                    neg = False
                    while isinstance(t, ast.UnaryOp) and isinstance(t.op, ast.Not):
                        t, neg = t.operand, not neg
                    cands = [t] + (list(t.values) if isinstance(t, ast.BoolOp) and isinstance(t.op, ast.And) else [])
                    for c in cands:
                        if isinstance(c, ast.Call) and chain(c.func) == "torch.equal" and len(c.args) == 2 and all(isinstance(a, ast.Name) and a.id in params for a in c.args):
                            truth = (st.truth != neg)
                            if isinstance(t, ast.BoolOp) and not truth:
                                continue  # `not (size-equal and equal)`: includes differently sized inputs, still the general branch
                            verdicts[(c.args[0].id, c.args[1].id)] = truth
                    if isinstance(t, ast.BoolOp) and isinstance(t.op, ast.And) and not (st.truth != neg):
                        for c in t.values:
                            if isinstance(c, ast.Call) and chain(c.func) == "torch.equal" and len(c.args) == 2 and all(isinstance(a, ast.Name) and a.id in params for a in c.args):
                                verdicts[(c.args[0].id, c.args[1].id)] = False
            if env_end is None or not verdicts:
                continue
            rv = inline(path.end.value, env_end)
            for key, truth in verdicts.items():
                groups.setdefault(key, {True: [], False: []})[truth].append(rv)
        for (a, b), g in sorted(groups.items()):
            if not g[True] or not g[False]:
                continue
            n += 1
            general = [Subst(a, b).visit(_copy.deepcopy(r)) for r in g[False]]
            gen_dump = {ast.dump(r) for r in general}
            from ..domains.linalg import Lin

            def scalar(e):
                """python-scalar expressions as commuting factors: c -> $sqrt(c) $sqrt(c), math.sqrt(c) -> $sqrt(c); numbers as coefficients"""
                from fractions import Fraction as _F
                if isinstance(e, ast.Constant) and isinstance(e.value, (int, float)) and not isinstance(e.value, bool):
                    return Lin({(): _F(e.value)})
                if isinstance(e, ast.Call):
                    fn = chain(e.func) or ""
                    if fn == "math.sqrt" and len(e.args) == 1:
                        return Lin.sym("$" + " ".join(src(e.args[0]).split()))
                    if fn in ("float", "int", "len") or fn.startswith("math.") or (isinstance(e.func, ast.Attribute) and e.func.attr in ("size", "numel") and len(e.args) <= 1):
                        r = Lin.sym("$" + " ".join(src(e).split()))
                        return r @ r
                return None

            def commute(v):
                """scalar factors commute: collect them in front of each term, sorted, with inverse pairs cancelled"""
                out = {}
                for term_, c_ in v.terms.items():
                    exps, rest = {}, []
                    for f_ in term_:
                        if f_[0].startswith("$"):
                            exps[f_[0]] = exps.get(f_[0], 0) + (-1 if f_[2] else 1)
                        else:
                            rest.append(f_)
                    sc = []
                    for k_ in sorted(exps):
                        sc += [(k_, False, exps[k_] < 0)] * abs(exps[k_])
                    key = tuple(sc) + tuple(rest)
                    out[key] = out.get(key, 0) + c_
                return Lin(out)

            class Robust(LinEval):
                """sub-expressions outside the algebra become opaque symbols named by their text"""
                def ev(self, e):
                    v = None
                    if isinstance(e, ast.BinOp) and isinstance(e.op, (ast.Div, ast.Mult)):
                        sides = [(e.left, e.right)] + ([(e.right, e.left)] if isinstance(e.op, ast.Mult) else [])
                        for mat, sc in sides:
                            sv = scalar(sc)
                            if sv is not None and scalar(mat) is None:
                                if isinstance(e.op, ast.Div):
                                    sv = sv.inverse()
                                mv = self.ev(mat)
                                v = None if sv is None else commute(sv @ mv)
                                break
                    if v is None:
                        v = LinEval.ev(self, e)
                    return commute(v) if v is not None else Lin.sym("<" + " ".join(src(e).split()) + ">")

            le = Robust(classify, set())

            def wrapped(e):
                """(signature of trailing element-selecting wrappers, normal form of the wrapped matrix) or None when the matrix itself
                is outside the algebra"""
                sig = []
                while isinstance(e, ast.Call) and isinstance(e.func, ast.Attribute) and e.func.attr in ("diagonal", "diag") and chain(e.func.value) not in ("torch",):
                    sig.append(" ".join(src(ast.Call(func=ast.Name(id=e.func.attr, ctx=ast.Load()), args=e.args, keywords=e.keywords)).split()))
                    e = e.func.value
                v = le.ev(e)
                opaque = len(v.terms) == 1 and list(v.terms)[0] == (("<" + " ".join(src(e).split()) + ">", False, False),)
                return None if opaque else (tuple(sig), v)

            gen_nf = [wrapped(r) for r in general]
            probs, undec = [], 0
            for r in g[True]:
                r2 = Subst(a, b).visit(_copy.deepcopy(r))
                if ast.dump(r2) in gen_dump:
                    continue
                w = wrapped(r2)
                cands = [x for x in gen_nf if x is not None and w is not None and x[0] == w[0]]
                if w is None or not cands:
                    undec += 1
                    continue
                nf = w[1]
                if any(x[1] == nf for x in cands):
                    continue
                gen_nf_show = [x[1] for x in cands]
                probs.append("with %s equal to %s the function returns `%s` = %s, which the general branch at %s := %s (%s) never returns" % (
                    a, b, " ".join(src(r).split())[:70], nf.show()[:120], b, a, " | ".join(sorted({x.show()[:80] for x in gen_nf_show}))))
            inst = "%s:%s[torch.equal(%s, %s)]" % (fi.module.name, fi.qualname, "_", "_")
            if probs:
                rep.add("C09-7", inst, fi.where, False, "; ".join(sorted(set(probs)))[:900] + ": a cross-covariance whose two input sets happen to coincide (test inputs equal to the training inputs) gets the auto-covariance form", {})
            elif undec:
                rep.observe("C09-7", inst, fi.where, "%d equal-branch result(s) outside the matrix normal form: not decided" % undec)
            else:
                rep.add("C09-7", inst, fi.where, True, "the equal-branch results coincide with the general branch at %s := %s" % (b, a), {})
    rep.floor("C09-7", "functions branching on torch.equal of two inputs", n, 3)


# ---- C09-8 ---------------------------------------------------------------------------------------------------------
def exact_test_prior(idx: ProgramIndex, rep: Report):
    """The SGPR predictive covariance is K** - Q** + K*u (Kuu + Kuf Kfu / s2)^-1 Ku*: the prior block of the test points is the *exact*
    kernel.  SGPRPredictionStrategy.exact_prediction obtains it by re-pointing the lazily evaluated test/test block at the inducing
    point kernel's base kernel.  That substitution may depend on what the block *is* (type tests), on nothing else: a setting in the
    guard makes the predictive covariance Q** - ... (under-estimated by diag(K** - Q**)) whenever the setting is off."""
    rep.rule("C09-8", "SGPR prediction: the substitution of the exact base kernel for the test/test prior block is guarded by type tests only")
    cls = idx.find_class("SGPRPredictionStrategy")
    fi = idx.method(cls, "exact_prediction", own=True)
    n = 0
    for st in ast.walk(fi.node):
        if not isinstance(st, ast.If):
            continue
        subst = any(isinstance(x, ast.Attribute) and x.attr == "base_kernel" for b_ in st.body for x in ast.walk(b_))
        if not subst:
            continue
        n += 1
        atoms = st.test.values if isinstance(st.test, ast.BoolOp) and isinstance(st.test.op, ast.And) else [st.test]
        other = [a for a in atoms if not (isinstance(a, ast.Call) and chain(a.func) == "isinstance")]
        rep.add("C09-8", "%s:SGPRPredictionStrategy.exact_prediction[K** substitution]" % cls.module.name, "%s:%d" % (fi.module.relpath, st.lineno), not other,
                "guarded by %d type test(s)" % len(atoms) if not other else
                "the substitution also depends on `%s`: when that is false the test prior stays the Nystrom block Q** and the predictive covariance is Q** - Q*f (Qff + s2 I)^-1 Qf* instead of the SGPR predictive equation" % " ".join(src(other[0]).split())[:60], {})
    if n == 0:
        raise AnalysisError("C09-8: the base-kernel substitution in SGPRPredictionStrategy.exact_prediction was not found (anchor vanished)")


# ---- C09-9 ---------------------------------------------------------------------------------------------------------
def grid_product_structure(idx: ProgramIndex, rep: Report):
    """GridKernel evaluates the base kernel one input dimension at a time (last_dim_is_batch=True) and returns the Kronecker product of
    the d one-dimensional matrices.  That is the kernel matrix on the grid only for kernels that factorise over the input dimensions,
    k(x, x') = prod_i k_i(x_i, x'_i) (RBF); for Matern, RQ, ... - also stationary - it is a different function.  The code must therefore test
    for the product structure, not only for stationarity."""
    rep.rule("C09-9", "the Kronecker-over-dimensions shortcut of GridKernel (base kernel evaluated per input dimension, matrices combined by a Kronecker product) is taken only for base kernels known to factorise over the input dimensions")
    G = idx.find_class("GridKernel")
    fw = idx.method(G, "forward", own=True)
    per_dim = [c for c in calls_in(fw.node) if chain(c.func) == "self.base_kernel" and any(k.arg == "last_dim_is_batch" and isinstance(k.value, ast.Constant) and k.value.value is True for k in c.keywords)]
    kron = [c for c in calls_in(fw.node) if (chain(c.func) or "").split(".")[-1] == "KroneckerProductLinearOperator"]
    if not per_dim or not kron:
        raise AnalysisError("C09-9: GridKernel.forward no longer evaluates the base kernel per dimension and combines the results by a Kronecker product (anchor vanished)")
    evidence = []
    for m in G.methods.values():
        for x in ast.walk(m.node):
            if isinstance(x, ast.Call) and isinstance(x.func, ast.Name) and x.func.id == "isinstance" and len(x.args) == 2 and "base_kernel" in src(x.args[0]) and "RBF" in src(x.args[1]):
                evidence.append("isinstance test at line %d" % x.lineno)
            if isinstance(x, ast.Attribute) and any(w in x.attr for w in ("product_structure", "factorises", "factorizes", "separable", "is_product")):
                evidence.append("attribute %s at line %d" % (x.attr, x.lineno))
    ok = bool(evidence)
    rep.add("C09-9", "%s:GridKernel.forward[Kronecker over input dimensions]" % G.module.name, "%s:%d" % (fw.module.relpath, kron[0].lineno), ok,
            "guarded: %s" % ", ".join(evidence) if ok else
            "the base kernel is evaluated once per input dimension (`%s`) and the d matrices are combined by KroneckerProductLinearOperator, with no test that the base kernel factorises over dimensions (only stationarity is required): GridKernel(MaternKernel(nu=1.5)) on its own 5 x 5 grid is 5.8e-2 from Matern(X, X), and a 2-d GridInterpolationKernel(Matern) does not converge as the grid is refined" % " ".join(src(per_dim[0]).split())[:70], {})
    rep.floor("C09-9", "Kronecker-over-dimensions shortcuts", 1, 1)


# ---- C09-10 --------------------------------------------------------------------------------------------------------
NOT_SGPR_WRAPPERS = {"CylindricalKernel": "the multiplied member is a kernel over the one-dimensional radius, paired with a fixed angular kernel: not a place for an inducing-point kernel"}


def wrappers_and_member_terms(idx: ProgramIndex, rep: Report):
    """InducingPointKernel contributes the trace term of the Titsias bound as an added loss term, computed from ITS OWN K and Q.  A kernel
    that wraps another kernel and multiplies its covariance (ScaleKernel: outputscale, MultitaskKernel: (x) task covariance) changes K - Q by
    that factor; the member's loss term is collected by model.added_loss_terms() as it is.  A multiplying wrapper therefore has to
    transform (or reject) the added loss terms of its member."""
    rep.rule("C09-10", "a kernel that multiplies the covariance of a member kernel (scale, Kronecker with a task covariance) accounts for the member's added loss terms: the SGPR trace term of a wrapped InducingPointKernel carries the same factor")
    K = idx.find_class("Kernel")
    registers = [c for c in idx.subclasses(K) if any(isinstance(x, ast.Call) and isinstance(x.func, ast.Attribute) and x.func.attr == "register_added_loss_term" for m in c.methods.values() for x in ast.walk(m.node))]
    if not registers:
        raise AnalysisError("C09-10: no kernel registers an added loss term any more (anchor vanished)")
    n = 0
    for cls in sorted(idx.subclasses(K), key=lambda c: c.qualname):
        fw = cls.methods.get("forward")
        if fw is None:
            continue
        sn = fw.params[0]
        # member kernels evaluated in forward
        members = {}
        for a in ast.walk(fw.node):
            if isinstance(a, ast.Assign) and isinstance(a.targets[0], ast.Name):
                for c in ast.walk(a.value):
                    if isinstance(c, ast.Call):
                        ch = chain(c.func) or ""
                        if ch.startswith(sn + ".") and ("kernel" in ch or "covar_module" in ch) and ch.split(".")[-1] in ("forward",) or (ch.startswith(sn + ".") and ch.count(".") == 1 and ("kernel" in ch or "covar_module" in ch)):
                            members[a.targets[0].id] = ch
        if not members:
            continue
        # locals bound to (tuples of) such names are the member's result too
        changed = True
        while changed:
            changed = False
            for a in ast.walk(fw.node):
                if not isinstance(a, ast.Assign):
                    continue
                pairs = []
                t0 = a.targets[0]
                if isinstance(t0, ast.Name) and isinstance(a.value, ast.Name):
                    pairs.append((t0.id, a.value.id))
                if isinstance(t0, ast.Tuple) and isinstance(a.value, ast.Tuple) and len(t0.elts) == len(a.value.elts):
                    pairs += [(x.id, y.id) for x, y in zip(t0.elts, a.value.elts) if isinstance(x, ast.Name) and isinstance(y, ast.Name)]
                for tgt, srcn in pairs:
                    if srcn in members and tgt not in members:
                        members[tgt] = members[srcn]
                        changed = True
        # is a member's result multiplied by something else?
        mult = None
        for x in ast.walk(fw.node):
            if isinstance(x, ast.Call) and isinstance(x.func, ast.Attribute) and x.func.attr in ("mul", "mul_") and isinstance(x.func.value, ast.Name) and x.func.value.id in members:
                mult = (members[x.func.value.id], src(x))
            if isinstance(x, ast.Call) and (chain(x.func) or "").split(".")[-1] == "KroneckerProductLinearOperator" and any(isinstance(a_, ast.Name) and a_.id in members for a_ in x.args):
                mult = ([members[a_.id] for a_ in x.args if isinstance(a_, ast.Name) and a_.id in members][0], src(x))
        if mult is None:
            continue
        if cls.name in NOT_SGPR_WRAPPERS:
            rep.observe("C09-10", "%s:%s.forward" % (cls.module.name, cls.qualname), fw.where, "not judged by table: %s" % NOT_SGPR_WRAPPERS[cls.name])
            continue
        n += 1
        handles = any("added_loss" in src(x) for m in cls.methods.values() for x in ast.walk(m.node) if isinstance(x, (ast.Attribute, ast.Name)))
        rep.add("C09-10", "%s:%s.forward[%s multiplied, member's added loss terms]" % (cls.module.name, cls.qualname, mult[0].replace(sn + ".", "")), fw.where, handles,
                "the wrapper deals with the added loss terms of its member" if handles else
                "`%s` multiplies the covariance of %s, but an added loss term registered by that member (%s: the trace term -1/(2 s2) tr(K - Q)) reaches the objective without the factor: Kronecker multitask SGPR (MultitaskKernel(InducingPointKernel), the library's own example) optimises -34.386 where the Titsias bound is -42.440 (= the bound with B removed from the trace term, to 1e-14)" % (" ".join(mult[1].split())[:60], mult[0], ", ".join(c.name for c in registers)), {})
    rep.floor("C09-10", "kernels that multiply a member's covariance", n, 2)


# ---- C09-11 --------------------------------------------------------------------------------------------------------
def flat_index_strides(idx: ProgramIndex, rep: Report):
    """Interpolation.interpolate turns the per-dimension grid indices into one index of the flattened grid (last dimension fastest): the
    index of dimension i is weighted by the product of the sizes of the dimensions AFTER i.  A power of the current dimension's own size,
    `n_i ** (d - i - 1)`, is the same number only when all dimensions have the same size."""
    rep.rule("C09-11", "the stride of grid dimension i in the flattened interpolation index is the product of the sizes of the later dimensions (computed from the list of sizes), not a power of one dimension's size")
    I = idx.find_class("Interpolation")
    fi = idx.method(I, "interpolate", own=True)
    # the coefficient that multiplies the per-dimension indices before they are accumulated
    coeffs = []
    for c in ast.walk(fi.node):
        if isinstance(c, ast.Call) and isinstance(c.func, ast.Attribute) and c.func.attr in ("mul", "mul_") and c.args and isinstance(c.args[0], ast.Name) and "ind" in src(c.func.value):
            coeffs.append(c.args[0].id)
    coeffs = sorted(set(coeffs))
    if not coeffs:
        raise AnalysisError("C09-11: Interpolation.interpolate no longer scales the per-dimension indices by a stride (anchor vanished)")
    n = 0
    for nm in coeffs:
        defs = [a.value for a in ast.walk(fi.node) if isinstance(a, ast.Assign) and any(isinstance(t, ast.Name) and t.id == nm for t in a.targets)]
        n += 1
        probs = []
        for d in defs:
            later = any(isinstance(x, ast.Subscript) and isinstance(x.slice, ast.Slice) and x.slice.lower is not None and x.slice.upper is None for x in ast.walk(d))
            power = any(isinstance(x, ast.BinOp) and isinstance(x.op, ast.Pow) for x in ast.walk(d)) or any(isinstance(x, ast.Call) and (chain(x.func) or "").split(".")[-1] == "pow" for x in ast.walk(d))
            if power or not later:
                probs.append("`%s = %s`" % (nm, " ".join(src(d).split())[:60]))
        rep.add("C09-11", "%s:Interpolation.interpolate[stride of a grid dimension]" % I.module.name, fi.where, not probs,
                "the stride is computed from the sizes of the later dimensions" if not probs else
                "%s is not the product of the sizes of the later grid dimensions: for a grid with unequal sizes per dimension ([10, 16]) the flat indices address other grid nodes (or leave the grid): the interpolated kernel is 0.8 from the base kernel instead of 2e-3 and is no longer exact at the nodes" % "; ".join(probs), {})
    rep.floor("C09-11", "strides of the flattened interpolation index", n, 1)


# ---- C09-12 --------------------------------------------------------------------------------------------------------
def sgpr_single_source(idx: ProgramIndex, rep: Report):
    """InducingPointKernel._get_covariance is the one place that decides between the Nystrom matrix and its diagonal-corrected form
    (training / evaluation mode, settings.sgpr_diagonal_correction).  Every value forward returns - the full matrix and the diag=True
    short form alike - has to be taken from that covariance; a return computed from the base kernel directly is right only for one
    state of the setting (eval mode with the correction on) and disagrees with the full matrix otherwise."""
    rep.rule("C09-12", "every value InducingPointKernel.forward returns derives from self._get_covariance(x1, x2) (or its guard consults settings.sgpr_diagonal_correction itself): the diagonal is the diagonal of the matrix the same call would return")
    from .c10 import _tests_around
    I = idx.find_class("InducingPointKernel")
    fw = I.methods.get("forward")
    if fw is None:
        raise AnalysisError("C09-12: InducingPointKernel.forward not found (anchor)")
    sn = fw.params[0]

    def derives(e: ast.AST, seen=()) -> bool:
        for x in ast.walk(e):
            if isinstance(x, ast.Call) and chain(x.func) == "%s._get_covariance" % sn:
                return True
            if isinstance(x, ast.Name) and x.id not in seen:
                for a in ast.walk(fw.node):
                    if isinstance(a, ast.Assign) and any(isinstance(t, ast.Name) and t.id == x.id for t in a.targets) and derives(a.value, seen + (x.id,)):
                        return True
        return False
    rets = [r for r in ast.walk(fw.node) if isinstance(r, ast.Return) and r.value is not None]
    if len(rets) < 2:
        raise AnalysisError("C09-12: InducingPointKernel.forward no longer returns a matrix and a diagonal (anchor)")
    probs = []
    for r in rets:
        if derives(r.value):
            continue
        if any("sgpr_diagonal_correction" in src(t) for t, pos in _tests_around(fw.node, r)):
            continue
        probs.append("line %d returns `%s`, which is not taken from self._get_covariance(...) and whose guard does not consult settings.sgpr_diagonal_correction: under sgpr_diagonal_correction(False) in evaluation mode the diagonal is the base kernel's (1.70) while the matrix is the Nystrom one (1.56 - 1.67 on its diagonal)" % (r.lineno, src(r.value)[:60]))
    rep.add("C09-12", "%s:InducingPointKernel.forward[single source]" % I.module.name, fw.where, not probs,
            "%d returns, all taken from self._get_covariance" % len(rets) if not probs else "; ".join(probs), {"returns": len(rets)})
