"""C11 - multitask MVN: one joint distribution regardless of layout, constructor or index.

C11-1  stride-unit type system for the flattened-index arithmetic of MultitaskMultivariateNormal.__getitem__
C11-2  every index component that enters the arithmetic is normalised first (ints, slices, index tensors), and the slice
       normaliser clamps to the dimension
C11-3  layout type system (flat task-major / flat interleaved / natural / transposed) for every layout-sensitive accessor,
       flag propagation at every re-construction site, stride table of to_data_independent_dist
Does not decide BlockInterleaved/BlockDiag operator semantics or values.  (DESIGN.md section 4, C11.)
"""
from __future__ import annotations

import ast
from typing import Dict, List, Optional, Set, Tuple

from ..cfg import enumerate_paths, Path, RETURN, RAISE, FALL
from ..index import (AnalysisError, ClassInfo, External, FuncInfo, ProgramIndex, body_without_docstring, call_name, calls_in, chain,
                     const_str, is_super_call, norm, src, walk_no_nested)
from ..report import Report

MOD = "gpytorch.distributions.multitask_multivariate_normal"


# =====================================================================================================================
# C11-1 / C11-2 : units
# =====================================================================================================================
class U:
    """unit-typed abstract value"""

    def __init__(self, kind: str, **kw):
        self.kind = kind  # ROW COL ROWSLICE COLSLICE ROWSTEP COLSTEP FLAT FLATSTEP FLATSLICE PER_ROW NROWS BATCH TUPLE NONE INT OTHER
        self.norm = kw.get("norm", False)
        self.parts: frozenset = kw.get("parts", frozenset())  # for FLAT: which of row/col are included
        self.var: frozenset = kw.get("var", frozenset())  # dims that come from slice bounds
        self.origin = kw.get("origin")  # FLATSTEP: 'row' | 'col'
        self.elems: List["U"] = kw.get("elems", [])
        self.text = kw.get("text", "")

    def __repr__(self):
        if self.kind == "FLAT":
            return "FLAT{%s}" % ",".join(sorted(self.parts))
        return self.kind + ("" if self.kind not in ("ROW", "COL", "ROWSLICE", "COLSLICE") else ("(normalised)" if self.norm else "(raw)"))


class UnitsError(Exception):
    def __init__(self, rule, msg):
        self.rule, self.msg = rule, msg


class UnitsEval:
    def __init__(self, sn: str):
        self.sn = sn
        self.env: Dict[str, U] = {}
        self.problems: List[Tuple[str, str]] = []

    def err(self, rule, msg):
        self.problems.append((rule, msg))

    def to_flat(self, v: U, ctx: str) -> Optional[U]:
        if v.kind == "FLAT":
            return v
        if v.kind == "COL":
            if not v.norm:
                self.err("C11-2", "stride-1 (column) index enters the flat-index arithmetic without normalisation in `%s`: a negative entry selects an element of the previous row" % ctx)
            return U("FLAT", parts=frozenset({"col"}), var=v.var)
        if v.kind == "ROW":
            self.err("C11-1", "row index is added to a flat index without being scaled by num_cols in `%s`" % ctx)
            return U("FLAT", parts=frozenset({"row?"}), var=v.var)
        return None

    def ev(self, e: ast.AST) -> U:
        if isinstance(e, ast.Name):
            return self.env.get(e.id, U("OTHER", text=e.id))
        if isinstance(e, ast.Constant):
            if e.value is None:
                return U("NONE")
            return U("INT", text=repr(e.value))
        if isinstance(e, ast.Attribute):
            b = self.ev(e.value)
            if e.attr in ("start", "stop") and b.kind in ("ROWSLICE", "COLSLICE"):
                if not b.norm:
                    self.err("C11-2", "`%s` is read from a slice that was not normalised (None/negative bounds enter the arithmetic)" % src(e))
                dim = "row" if b.kind == "ROWSLICE" else "col"
                return U("ROW" if dim == "row" else "COL", norm=b.norm, var=frozenset({dim}))
            if e.attr == "step" and b.kind in ("ROWSLICE", "COLSLICE"):
                if not b.norm:
                    self.err("C11-2", "`%s` is read from a slice that was not normalised" % src(e))
                return U("ROWSTEP" if b.kind == "ROWSLICE" else "COLSTEP")
            return U("OTHER", text=src(e))
        if isinstance(e, ast.BinOp):
            a, b = self.ev(e.left), self.ev(e.right)
            if isinstance(e.op, ast.Mult):
                for x, y in ((a, b), (b, a)):
                    if x.kind == "ROW" and y.kind == "PER_ROW":
                        return U("FLAT", parts=frozenset({"row"}), var=x.var)
                    if x.kind == "ROWSTEP" and y.kind == "PER_ROW":
                        return U("FLATSTEP", origin="row")
                    if x.kind == "ROW" and y.kind == "NROWS":
                        self.err("C11-1", "row index scaled by num_rows instead of num_cols in `%s`" % src(e))
                        return U("FLAT", parts=frozenset({"row?"}))
                    if x.kind in ("COL", "COLSTEP") and y.kind in ("PER_ROW", "NROWS"):
                        self.err("C11-1", "column index/step scaled by a dimension size in `%s` (columns have stride 1)" % src(e))
                        return U("FLAT", parts=frozenset({"col?"}))
                return U("OTHER", text=src(e))
            if isinstance(e.op, ast.Add):
                if a.kind == "BATCH" or b.kind == "BATCH":
                    other = b if a.kind == "BATCH" else a
                    return U("TUPLE", elems=other.elems if other.kind == "TUPLE" else [other], text=src(e))
                fa, fb = self.to_flat(a, src(e)), self.to_flat(b, src(e))
                if fa is not None and fb is not None:
                    if fa.parts & fb.parts:
                        self.err("C11-1", "the %s part is added twice in `%s`" % ("/".join(sorted(fa.parts & fb.parts)), src(e)))
                    return U("FLAT", parts=fa.parts | fb.parts, var=fa.var | fb.var)
                if (fa is not None) != (fb is not None):
                    k = a if fa is None else b
                    if k.kind in ("ROWSTEP", "COLSTEP", "FLATSTEP", "PER_ROW", "NROWS"):
                        self.err("C11-1", "a %s is added to a flat index in `%s`" % (k.kind, src(e)))
                    return fa if fa is not None else fb
                return U("OTHER", text=src(e))
            return U("OTHER", text=src(e))
        if isinstance(e, ast.Tuple):
            return U("TUPLE", elems=[self.ev(x) for x in e.elts], text=src(e))
        if isinstance(e, ast.Call):
            f = chain(e.func) or ""
            short = f.split(".")[-1] if f else (e.func.attr if isinstance(e.func, ast.Attribute) else "")
            if short in ("_normalize_index", "_normalize_slice") and len(e.args) == 2:
                a, d = self.ev(e.args[0]), self.ev(e.args[1])
                want = {"ROW": "NROWS", "ROWSLICE": "NROWS", "COL": "PER_ROW", "COLSLICE": "PER_ROW"}
                if a.kind in want:
                    if d.kind != want[a.kind]:
                        self.err("C11-2", "`%s` normalises a %s index with the size of the other dimension" % (src(e), "row" if a.kind.startswith("ROW") else "column"))
                    return U(a.kind, norm=True, var=a.var)
                return U("OTHER", text=src(e))
            if short == "slice" and len(e.args) == 3:
                st, sp, step = (self.ev(x) for x in e.args)
                fs, fp = self.to_flat(st, src(e)), self.to_flat(sp, src(e))
                if fs is None or fp is None:
                    self.err("C11-1", "slice bounds `%s` are not flat indices" % src(e)[:80])
                    return U("FLATSLICE", parts=frozenset())
                for nm, v in (("start", fs), ("stop", fp)):
                    if v.parts != frozenset({"row", "col"}):
                        self.err("C11-1", "the %s of the flat slice `%s` is %r: it must combine row*num_cols and the column offset" % (nm, src(e)[:80], v))
                var = fs.var | fp.var
                if step.kind == "COLSTEP":
                    if var != frozenset({"col"}):
                        self.err("C11-1", "flat slice over %s uses the column step in `%s`" % ("/".join(sorted(var)) or "?", src(e)[:80]))
                elif step.kind == "FLATSTEP" and step.origin == "row":
                    if var != frozenset({"row"}):
                        self.err("C11-1", "flat slice over %s uses the scaled row step in `%s`" % ("/".join(sorted(var)) or "?", src(e)[:80]))
                elif step.kind == "ROWSTEP":
                    self.err("C11-1", "row step is not scaled by num_cols in `%s`" % src(e)[:80])
                elif step.kind == "NONE" or step.kind == "INT":
                    if var == frozenset({"row"}):
                        self.err("C11-1", "a slice over rows needs the step row.step*num_cols in `%s`" % src(e)[:80])
                else:
                    self.err("C11-1", "unrecognised step `%s` of a flat slice" % src(e.args[2]))
                return U("FLATSLICE", parts=fs.parts & fp.parts)
            if short in ("reshape", "view", "contiguous", "to", "long") and isinstance(e.func, ast.Attribute):
                return self.ev(e.func.value)
            if f == "torch.meshgrid":
                a = [self.ev(x) for x in e.args]
                ij = any(k.arg == "indexing" and const_str(k.value) == "ij" for k in e.keywords)
                if len(a) == 2 and not (a[0].kind == "ROW" and a[1].kind == "COL" and ij):
                    self.err("C11-1", "meshgrid must be (row index, column index) with indexing='ij' so that flattening is row-major: `%s`" % src(e))
                return U("TUPLE", elems=a)
            if f == "torch.arange":
                a = self.ev(e.args[0]) if e.args else U("OTHER")
                return U("ARANGE", origin={"NROWS": "row", "PER_ROW": "col"}.get(a.kind), text=src(e))
            return U("OTHER", text=src(e))
        if isinstance(e, ast.Subscript):
            b = self.ev(e.value)
            if b.kind == "ARANGE":
                i = self.ev(e.slice)
                dim = {"ROW": "row", "ROWSLICE": "row", "COL": "col", "COLSLICE": "col"}.get(i.kind)
                if dim is None or b.origin != dim:
                    self.err("C11-2", "`%s`: an index of the %s dimension is resolved against arange of the %s dimension" % (src(e), dim, b.origin))
                return U("ROW" if dim == "row" else "COL", norm=True)
            return U("OTHER", text=src(e))
        return U("OTHER", text=src(e))


def _subscript_pos(e: ast.AST, base: str) -> Optional[int]:
    """`idx[-2]` -> -2"""
    if isinstance(e, ast.Subscript) and chain(e.value) == base:
        s = e.slice
        if isinstance(s, ast.UnaryOp) and isinstance(s.op, ast.USub) and isinstance(s.operand, ast.Constant):
            return -s.operand.value
        if isinstance(s, ast.Constant):
            return s.value
    return None


def check_getitem(idx: ProgramIndex, rep: Report):
    cls = idx.cls(MOD, "MultitaskMultivariateNormal")
    fi = idx.method(cls, "__getitem__", own=True)
    sn, ixn = fi.params[0], fi.params[1]
    paths = [p for p in enumerate_paths(body_without_docstring(fi.node)) if p.outcome == RETURN]
    cov = "%s.lazy_covariance_matrix" % sn
    n_cov_sites = 0
    n_paths = 0
    per_site: Dict[str, dict] = {}
    swaps_seen = set()
    for p in paths:
        ue = UnitsEval(sn)
        batch_names: Set[str] = set()
        path_site: List[str] = []
        # role assignment from the interleaved swap
        pos: Dict[str, int] = {}
        shape_pos: Dict[str, int] = {}
        layout = None
        full_slice_path = False
        for s in p.steps:
            if s.kind == "assume":
                t = src(s.node)
                if t == "%s._interleaved" % sn:
                    layout = s.truth
                elif t == "not %s._interleaved" % sn:
                    layout = not s.truth
                if "slice(None, None, None)" in t and s.truth:
                    full_slice_path = True
                # kinds from isinstance assumptions (conjuncts of a true test)
                conj = s.node.values if isinstance(s.node, ast.BoolOp) and isinstance(s.node.op, ast.And) else [s.node]
                if s.truth:
                    for cj in conj:
                        if isinstance(cj, ast.Call) and chain(cj.func) == "isinstance" and len(cj.args) == 2 and isinstance(cj.args[0], ast.Name) and src(cj.args[1]) == "slice":
                            cur = ue.env.get(cj.args[0].id)
                            if cur is not None and cur.kind in ("ROW", "COL"):
                                ue.env[cj.args[0].id] = U(cur.kind + "SLICE", norm=False)
            if s.kind != "stmt":
                continue
            st = s.node
            if isinstance(st, ast.Assign) and len(st.targets) == 1:
                tg = st.targets[0]
                if isinstance(tg, ast.Name):
                    # roles come from the layout, not from names: flat index = slow * (size of fast) + fast, where the slow
                    # ("row") dimension is the data dimension (-2) when interleaved and the task dimension (-1) otherwise
                    pp = _subscript_pos(st.value, ixn)
                    if pp in (-1, -2) and layout is not None:
                        role = "row_idx" if (pp == -2) == bool(layout) else "col_idx"
                        pos[role] = pp
                        ue.env[tg.id] = U("ROW" if role == "row_idx" else "COL", norm=False)
                        continue
                    sp = _subscript_pos(st.value, "%s._output_shape" % sn)
                    if sp in (-1, -2) and layout is not None:
                        role = "num_rows" if (sp == -2) == bool(layout) else "num_cols"
                        shape_pos[role] = sp
                        ue.env[tg.id] = U("NROWS" if role == "num_rows" else "PER_ROW")
                        continue
                    if isinstance(st.value, ast.Subscript) and chain(st.value.value) == ixn and isinstance(st.value.slice, ast.Slice) and st.value.slice.lower is None and src(st.value.slice.upper) == "-2":
                        ue.env[tg.id] = U("BATCH")
                        batch_names.add(tg.id)
                        continue
                    # refine slices from isinstance assumptions is not needed: kinds are carried by the normalisers
                    v = ue.ev(st.value)
                    if v.kind in ("ROW", "COL") and isinstance(st.value, ast.Call) and (chain(st.value.func) or "").endswith("_normalize_slice"):
                        v = U("ROWSLICE" if v.kind == "ROW" else "COLSLICE", norm=True)
                    ue.env[tg.id] = v
                elif isinstance(tg, ast.Tuple):
                    v = ue.ev(st.value)
                    if v.kind == "TUPLE" and len(v.elems) == len(tg.elts):
                        for te, x in zip(tg.elts, v.elems):
                            if isinstance(te, ast.Name):
                                ue.env[te.id] = x
            # covariance indexing sites (outermost subscript of a chain only)
            inner = {id(n.value) for n in ast.walk(st) if isinstance(n, ast.Subscript)}
            for n in ast.walk(st):
                if isinstance(n, ast.Subscript) and id(n) not in inner and _is_cov_base(n.value, cov):
                    key = norm(n)
                    if chain(n.slice) == ixn or (isinstance(n.slice, ast.Name) and n.slice.id in batch_names):
                        if isinstance(n.slice, ast.Name) and n.slice.id in batch_names:
                            path_site.append(key)
                            if not full_slice_path:
                                ue.err("C11-1", "the covariance is returned un-indexed (`%s`) on a path that is not the full-slice case" % key)
                        continue
                    if not pos:
                        continue
                    n_cov_sites += 1
                    path_site.append(key)
                    _check_cov_index(ue, n, cov)
        if pos:
            n_paths += 1
            # C11-1 pairing of the swap
            ok_swap = (set(pos) == {"row_idx", "col_idx"} and set(shape_pos) == {"num_rows", "num_cols"}
                       and pos["row_idx"] == shape_pos["num_rows"] and pos["col_idx"] == shape_pos["num_cols"]
                       and {pos["row_idx"], pos["col_idx"]} == {-1, -2}
                       and (layout is None or (pos["row_idx"] == -2) == bool(layout)))
            swaps_seen.add((layout, ok_swap, tuple(sorted(pos.items())), tuple(sorted(shape_pos.items()))))
        guards = [" ".join(src(st.node).split()) for st in p.steps if st.kind == "assume" and "isinstance" in src(st.node) and "tuple" not in src(st.node)]
        taken = [g for g, st in zip(guards, [st for st in p.steps if st.kind == "assume" and "isinstance" in src(st.node) and "tuple" not in src(st.node)]) if st.truth]
        branch = (taken[-1] if taken else ("else" if guards else "")).replace("isinstance", "is")
        site = ("%s -> %s" % (branch, path_site[0])) if path_site else "<no covariance index on path>"
        if pos:
            per_site.setdefault(site, {"C11-1": set(), "C11-2": set(), "C11-6": set(), "paths": 0})
            per_site[site]["paths"] += 1
            per_site[site]["batch"] = per_site[site].get("batch") or bool(path_site) and ("[" in path_site[0])
            for r, m in ue.problems:
                per_site[site][r].add(m)
    inst = MOD + ":MultitaskMultivariateNormal.__getitem__"
    for layout, ok, ps, sps in sorted(swaps_seen, key=str):
        rep.add("C11-1", inst + "[roles interleaved=%s]" % layout, fi.where, ok,
                "row/col roles and num_rows/num_cols are taken from matching positions %s / %s" % (dict(ps), dict(sps)) if ok else
                "row_idx/col_idx and num_rows/num_cols are assigned from inconsistent positions: %s vs %s" % (dict(ps), dict(sps)), {})
    rep.floor("C11-1", "layout role assignments", len(swaps_seen), 2)
    for site in sorted(per_site):
        d = per_site[site]
        u1, u2 = sorted(d["C11-1"]), sorted(d["C11-2"])
        rep.add("C11-1", inst + "[units: %s]" % site[:150], fi.where, not u1,
                "unit-consistent flat selection (row*num_cols + col, matching step, same selection on both axes) on %d path(s)" % d["paths"] if not u1 else "; ".join(u1[:3]), {"paths": d["paths"]})
        u6 = sorted(d["C11-6"])
        if d.get("batch"):
            rep.add("C11-6", inst + "[batch apart: %s]" % _anon_site(site)[:150], fi.where, not u6, "batch indices and event index tensors are applied in separate subscripts (or the event indices are slices / integers)" if not u6 else "; ".join(u6[:2]), {"paths": d["paths"]})
        rep.add("C11-2", inst + "[normalised: %s]" % site[:150], fi.where, not u2,
                "every index component is normalised with the size of its own dimension before it enters the arithmetic" if not u2 else "; ".join(u2[:3]), {"paths": d["paths"]})
    rep.floor("C11-1", "covariance index sites typed", len(per_site), 7)
    # the slice normaliser clamps
    ns = idx.function(MOD, "_normalize_slice")
    t = src(ns.node)
    uses_indices = any(isinstance(c, ast.Call) and isinstance(c.func, ast.Attribute) and c.func.attr == "indices" and len(c.args) == 1 and src(c.args[0]) == ns.params[1] for c in calls_in(ns.node))
    clamps = ("min(" in t and "max(" in t) or ".clamp" in t
    rep.add("C11-2", MOD + ":_normalize_slice[clamps]", ns.where, uses_indices or clamps,
            "slice bounds are clamped to the dimension (slice.indices)" if uses_indices or clamps else
            "_normalize_slice resolves None/negative bounds but does not clamp them to the dimension: d[i, 0:10**6] selects entries of other rows", {})
    ni = idx.function(MOD, "_normalize_index")
    handles_tensor = any(isinstance(c, ast.Call) and (chain(c.func) or "").split(".")[-1] in ("where", "remainder", "is_tensor") for c in calls_in(ni.node)) or "%" in src(ni.node)
    rep.add("C11-2", MOD + ":_normalize_index[tensors]", ni.where, handles_tensor,
            "index tensors are normalised elementwise" if handles_tensor else "_normalize_index handles ints only; index tensors with negative entries are not normalised", {})
    # boolean masks: mean[idx] accepts them, the covariance position arithmetic (row * num_cols + col, meshgrid) would read them as 0/1.
    # On the path where the index is tested to be a mask the result has to be the positions it selects (nonzero / where(mask) / argwhere).
    from ..symbolic import inline as _inl, walk_paths as _wp
    ip = ni.params[0]
    mask_paths, bad_mask = 0, []
    for path, seq in _wp(ni):
        if path.outcome != RETURN or path.end is None or getattr(path.end, "value", None) is None:
            continue
        tests = [(s_.node, s_.truth) for s_, _e in seq if getattr(s_, "kind", "") == "assume"]
        is_mask = any(("torch.bool" in src(t_) or "is_floating_point" in src(t_) or "bool" in src(t_)) and "dtype" in src(t_) and
                      ((tr and "==" in src(t_)) or (not tr and "!=" in src(t_))) for t_, tr in tests)
        if not is_mask:
            continue
        mask_paths += 1
        env = seq[-1][1] if seq else {}
        for st, e_ in seq:
            if st is path.end:
                env = e_
        rv = _inl(path.end.value, env)
        conv = any(isinstance(c, ast.Call) and ((isinstance(c.func, ast.Attribute) and c.func.attr in ("nonzero", "argwhere")) or
                                                 ((chain(c.func) or "") in ("torch.where", "torch.nonzero", "torch.argwhere") and len(c.args) == 1)) for c in ast.walk(rv))
        if not conv:
            bad_mask.append("on the boolean-mask path `%s` is returned: the mask enters the position arithmetic as 0/1" % " ".join(src(rv).split())[:50])
    ok_mask = mask_paths > 0 and not bad_mask
    rep.add("C11-2", MOD + ":_normalize_index[boolean masks]", ni.where, ok_mask,
            "a boolean mask is replaced by the positions it selects before any arithmetic" if ok_mask else
            ("; ".join(bad_mask) if bad_mask else "_normalize_index does not tell boolean masks from integer index tensors: row_idx * num_cols + col_idx reads True/False as 1/0, so the covariance belongs to other entries than mean[idx]"), {"mask_paths": mask_paths})


_KEEP_IN_SITE = {"is", "slice", "int", "and", "or", "not", "self", "else", "None", "Ellipsis", "tuple", "list"}


def _anon_site(site: str) -> str:
    """local names are not part of a finding's key: every identifier that is not an attribute (after a dot) or a keyword becomes `_`"""
    import re
    return re.sub(r"(?<![\w.])([A-Za-z_][A-Za-z_0-9]*)\b", lambda m: m.group(1) if m.group(1) in _KEEP_IN_SITE else "_", site)


def _is_cov_base(e: ast.AST, cov: str) -> bool:
    if chain(e) == cov:
        return True
    if isinstance(e, ast.Call) and isinstance(e.func, ast.Attribute) and e.func.attr == "diagonal" and chain(e.func.value) == cov:
        return True
    if isinstance(e, ast.Subscript):
        return _is_cov_base(e.value, cov)
    return False


def _check_cov_index(ue: UnitsEval, node: ast.Subscript, cov: str):
    """Collect the flat selections applied to the two covariance axes (or the diagonal) and type them."""
    sels: List[ast.AST] = []
    is_diag = False
    cur = node
    chain_nodes = []
    while isinstance(cur, ast.Subscript):
        chain_nodes.append(cur)
        cur = cur.value
    if isinstance(cur, ast.Call):
        is_diag = True
    positions: List[Optional[int]] = []

    def full(x: ast.AST) -> bool:
        return isinstance(x, ast.Slice) and x.lower is None and x.upper is None and x.step is None
    for sub in reversed(chain_nodes):
        s = sub.slice
        v = ue.ev(s)
        if isinstance(s, ast.Tuple):
            ell = [k for k, x in enumerate(s.elts) if isinstance(x, ast.Constant) and x.value is Ellipsis]
            for k, x in enumerate(s.elts):
                if isinstance(x, ast.Constant) and x.value is Ellipsis:
                    continue
                if full(x):
                    continue  # `:` keeps the axis as it is
                sels.append(x)
                positions.append(k - len(s.elts) if ell and k > ell[0] else None)
        elif v.kind == "TUPLE" and isinstance(s, ast.BinOp):
            # batch_idx + (a, b)
            rhs = s.right if isinstance(s.right, ast.Tuple) else s.left
            if isinstance(rhs, ast.Tuple):
                sels.extend(rhs.elts)
                positions.extend(-2 + k for k in range(len(rhs.elts)))  # the batch indices are followed by the row axis, then the column axis
                # C11-6: advanced indices in one subscript are zipped: a computed index TENSOR over the event axes must not share a subscript
                # with the caller's batch indices (which may contain index tensors too)
                for x in rhs.elts:
                    if isinstance(x, ast.Name) and ue.ev(x).kind not in ("FLATSLICE", "ROWSLICE", "COLSLICE", "INT", "NONE"):
                        ue.err("C11-6", "`%s` puts the flat event index tensor `%s` into one subscript with the caller's batch indices: an index tensor over a batch dimension is zipped element-wise with it instead of selecting batch members (index the batch first: cov[batch_idx][..., %s, :][..., %s])" % (src(node)[:70], x.id, x.id, x.id))
        elif v.kind == "BATCH" and isinstance(s, ast.Name):
            continue  # [batch_idx]: the caller's batch indices alone select no event axis
        else:
            sels.append(s)
            positions.append(None)
    want = 1 if is_diag else 2
    if not is_diag and len(sels) == 2 and None not in positions and sorted(positions) != [-2, -1]:
        ue.err("C11-1", "`%s` selects the covariance axes %s (expected the row axis -2 and the column axis -1 once each)" % (src(node)[:80], positions))
        return
    if len(sels) != want:
        ue.err("C11-1", "`%s` applies %d flat selections to the covariance (expected %d)" % (src(node)[:80], len(sels), want))
        return
    if want == 2 and src(sels[0]) != src(sels[1]):
        ue.err("C11-1", "rows and columns of the covariance are indexed with different selections in `%s`" % src(node)[:80])
    for sx in sels:
        v = ue.ev(sx)
        if v.kind == "FLATSLICE":
            continue
        f = ue.to_flat(v, src(sx)) if v.kind in ("FLAT", "ROW", "COL") else None
        if f is None:
            ue.err("C11-1", "covariance selection `%s` is not a flat index (type %r)" % (src(sx)[:60], v))
        elif f.parts != frozenset({"row", "col"}):
            ue.err("C11-1", "covariance selection `%s` has type %r: it must combine row*num_cols and the column offset" % (src(sx)[:60], f))


# =====================================================================================================================
# C11-3 : layout types
# =====================================================================================================================
FLAT_TM, FLAT_IL, NAT, TN, BAD, UNK = "flat task-major", "flat interleaved", "natural (.., n, t)", "transposed (.., t, n)", "BAD", "unknown"


class LayoutEval:
    def __init__(self, sn: str, interleaved: bool, sources: Dict[str, str]):
        self.sn, self.il = sn, interleaved
        self.env: Dict[str, str] = dict(sources)
        self.shapes: Dict[str, str] = {}
        self.problems: List[str] = []

    def shape_kind(self, e: ast.AST) -> Optional[str]:
        """REV | NATSHAPE | FLATTEN | None"""
        if isinstance(e, ast.Name) and e.id in self.shapes:
            return self.shapes[e.id]
        t = src(e)
        if isinstance(e, ast.BinOp) and isinstance(e.op, ast.Add):
            # prefix + (shape[:-2] + shape[:-3:-1])
            r = self.shape_kind(e.right)
            if r in ("REVTAIL",) and src(e.left).endswith("[:-2]"):
                return "REV"
            if r in ("REV", "NATSHAPE"):
                return r
            if src(e.right).endswith("[:-3:-1]") and src(e.left).endswith("[:-2]"):
                return "REV"
            if src(e.right).endswith("[:-3:-1]"):
                # a + b[:-2] + b[:-3:-1] parses as (a + b[:-2]) + b[:-3:-1]
                l = e.left
                if isinstance(l, ast.BinOp) and src(l.right).endswith("[:-2]"):
                    return "REV"
                return None
        if t == "%s._output_shape" % self.sn:
            return "NATSHAPE"
        return None

    def view_args_kind(self, call: ast.Call) -> Optional[str]:
        args = call.args
        if len(args) == 1:
            k = self.shape_kind(args[0])
            if k:
                return k
        texts = [src(a) for a in args]
        if texts and texts[-1] == "-1" and any(isinstance(a, ast.Starred) and src(a.value).endswith("[:-2]") for a in args[:-1]):
            return "FLATTEN"
        if texts and isinstance(args[-1], ast.Starred) and src(args[-1].value) in ("%s._output_shape" % self.sn,):
            return "NATSHAPE"
        if texts and isinstance(args[-1], ast.Starred) and src(args[-1].value) == "%s.loc.shape" % self.sn:
            return "FLATSHAPE"
        return None

    def ev(self, e: ast.AST) -> str:
        if isinstance(e, ast.Name):
            return self.env.get(e.id, UNK)
        if isinstance(e, ast.Attribute) and isinstance(e.value, ast.Call) and isinstance(e.value.func, ast.Name) and e.value.func.id == "super":
            if e.attr in ("mean", "variance", "loc", "stddev"):
                return FLAT_IL if self.il else FLAT_TM
        if isinstance(e, ast.Call) and is_super_call(e):
            if e.func.attr in ("rsample", "sample", "get_base_samples"):
                return FLAT_IL if self.il else FLAT_TM
            return UNK
        if isinstance(e, ast.Call) and isinstance(e.func, ast.Attribute):
            m = e.func.attr
            b = self.ev(e.func.value)
            if m in ("contiguous", "expand", "to", "clone", "detach"):
                return b
            if m == "transpose" and sorted(src(a) for a in e.args) == ["-1", "-2"]:
                return {NAT: TN, TN: NAT}.get(b, BAD if b in (FLAT_TM, FLAT_IL) else b)
            if m in ("view", "reshape"):
                k = self.view_args_kind(e)
                if k == "REV":
                    if b == FLAT_TM:
                        return TN
                    if b == NAT:
                        self.problems.append("`%s` views a natural-layout tensor with the last two dimensions reversed: this reinterprets memory instead of transposing" % src(e)[:90])
                        return BAD
                    if b == FLAT_IL:
                        self.problems.append("`%s` views an interleaved flat tensor as (.., t, n)" % src(e)[:90])
                        return BAD
                    return b
                if k == "NATSHAPE":
                    if b == FLAT_IL:
                        return NAT
                    if b == FLAT_TM:
                        self.problems.append("`%s` views a task-major flat tensor directly as (.., n, t) (needs view as (.., t, n) and a transpose)" % src(e)[:90])
                        return BAD
                    return b
                if k == "FLATTEN":
                    return {NAT: FLAT_IL, TN: FLAT_TM}.get(b, b)
                if k == "FLATSHAPE":
                    return UNK
                return b if b in (UNK,) else UNK
        return UNK


ACCESSORS = {
    # method -> (sources: name -> layout kind at entry, sink kind)
    "mean": "return",
    "variance": "return",
    "rsample": "return",
    "get_base_samples": "return",
    "log_prob": "super_arg",
    "__init__": "super_mean",
}


def check_layout(idx: ProgramIndex, rep: Report):
    cls = idx.cls(MOD, "MultitaskMultivariateNormal")
    n = 0
    for name, sink in ACCESSORS.items():
        fi = idx.method(cls, name, own=True)
        sn = fi.params[0]
        for il in (True, False):
            n += 1
            inst = "%s:MultitaskMultivariateNormal.%s[interleaved=%s]" % (MOD, name, il)
            probs: List[str] = []
            npaths = 0
            for p in enumerate_paths(body_without_docstring(fi.node)):
                if p.outcome != RETURN and not (name == "__init__" and p.outcome == FALL):
                    continue
                feasible = True
                sources = {}
                if name == "log_prob":
                    sources[fi.params[1]] = NAT
                if name == "__init__":
                    sources[fi.params[1]] = NAT
                le = LayoutEval(sn, il, sources)
                result = None
                for s in p.steps:
                    if s.kind == "assume":
                        t = src(s.node)
                        val = None
                        if t in ("%s._interleaved" % sn, "interleaved"):
                            val = s.truth
                        elif t in ("not %s._interleaved" % sn, "not interleaved"):
                            val = not s.truth
                        if val is not None and val != il:
                            feasible = False
                            break
                    elif s.kind == "stmt":
                        st = s.node
                        if isinstance(st, ast.Assign) and len(st.targets) == 1 and isinstance(st.targets[0], ast.Name):
                            k = le.shape_kind(st.value)
                            if k:
                                le.shapes[st.targets[0].id] = k
                            else:
                                v = le.ev(st.value)
                                if v != UNK or st.targets[0].id not in le.env:
                                    le.env[st.targets[0].id] = v
                        if sink == "return" and isinstance(st, ast.Return) and st.value is not None:
                            result = le.ev(st.value)
                        for c in calls_in(st):
                            if sink == "super_arg" and is_super_call(c, "log_prob") and c.args:
                                result = le.ev(c.args[0])
                            if sink == "super_mean" and is_super_call(c, "__init__"):
                                for k in c.keywords:
                                    if k.arg == "mean":
                                        result = le.ev(k.value)
                if not feasible:
                    continue
                npaths += 1
                probs += le.problems
                want = NAT if sink == "return" else (FLAT_IL if il else FLAT_TM)
                if result is None:
                    probs.append("no %s found on a path" % sink)
                elif result != want:
                    probs.append("%s has layout `%s`, expected `%s`" % ({"return": "the returned tensor", "super_arg": "the value passed to super().log_prob", "super_mean": "the mean passed to super().__init__"}[sink], result, want))
            if npaths == 0:
                probs.append("no feasible path for this layout")
            rep.add("C11-3", inst, fi.where, not probs, "layout-typed: %s on %d path(s)" % ("returns natural layout" if sink == "return" else "hands the flat vector in the covariance's own order to the base class", npaths) if not probs else "; ".join(sorted(set(probs))), {"paths": npaths})
    rep.floor("C11-3", "accessor x layout obligations", n, 12)
    # flag propagation at re-construction sites inside the class
    n_sites = 0
    for mname, fi in cls.methods.items():
        if mname in ("from_batch_mvn", "from_repeated_mvn"):
            continue
        for c in calls_in(fi.node):
            f = src(c.func)
            if f in ("MultitaskMultivariateNormal", "self.__class__", "cls") and mname != "__init__":
                n_sites += 1
                kw = {k.arg: k.value for k in c.keywords}
                inst = "%s:MultitaskMultivariateNormal.%s[%s(...)]" % (MOD, mname, f)
                if mname == "from_independent_mvns":
                    ok = "interleaved" in kw and isinstance(kw["interleaved"], ast.Constant) and kw["interleaved"].value is False and "BlockDiagLinearOperator" in src(fi.node)
                    rep.add("C11-3", inst, "%s:%d" % (fi.module.relpath, c.lineno), ok, "block-diagonal (task-major) covariance is flagged interleaved=False" if ok else "from_independent_mvns builds a task-major block-diagonal covariance but does not flag it interleaved=False", {})
                else:
                    ok = "interleaved" in kw and src(kw["interleaved"]) == "self._interleaved"
                    rep.add("C11-3", inst, "%s:%d" % (fi.module.relpath, c.lineno), ok, "layout flag propagated" if ok else "a MultitaskMultivariateNormal is rebuilt from self's covariance without interleaved=self._interleaved", {})
    rep.floor("C11-3", "re-construction sites", n_sites, 5)
    # inherited re-construction: a base-class method that MultitaskMultivariateNormal does not override and that rebuilds the result with
    # self.__class__(mean, covariance) runs the multitask constructor with its default interleaved=True, whatever self's layout is
    n_inh = 0
    for base in cls.mro()[1:]:
        if isinstance(base, External) or not base.module.name.startswith(idx.package):
            continue
        for mname, fi in base.methods.items():
            if mname in cls.methods or mname == "__init__":
                continue
            if cls.lookup(mname) is not fi:
                continue
            for c in calls_in(fi.node):
                f = src(c.func)
                if f not in ("self.__class__", "type(self)", "self.__class__.__new__"):
                    continue
                if f.endswith("__new__"):
                    continue
                n_inh += 1
                inst = "%s:%s.%s[inherited %s(...)]" % (base.module.name, base.name, mname, f)
                rep.add("C11-3", inst, "%s:%d" % (fi.module.relpath, c.lineno), False,
                        "%s.%s is inherited by MultitaskMultivariateNormal and rebuilds its result with %s(mean, covariance): the multitask constructor runs with the default interleaved=True (and expects the n x t mean), so for a task-major distribution the result denotes a different joint Gaussian" % (base.name, mname, f), {})
        # hook methods: a construction hook that the multitask class overrides must be what the base methods use
    hooks = [m for m, fi in cls.methods.items() if any(src(c.func) in ("self.__class__", "type(self)") and any(k.arg == "interleaved" for k in c.keywords) for c in calls_in(fi.node))
             and any(m in b.methods for b in cls.mro()[1:] if not isinstance(b, External))]
    rep.add("C11-3", MOD + ":MultitaskMultivariateNormal[inherited re-construction]", cls.where, True,
            "%d inherited method(s) rebuild the result directly; construction hook(s) overridden with the layout flag: %s" % (n_inh, ", ".join(sorted(hooks)) or "none"), {"hooks": sorted(hooks)})
    # from_batch_mvn: the covariance is BlockInterleaved over task_dim (the block dimension is *removed* from the batch dimensions,
    # the others keep their order) with the default interleaved flag; the mean must undergo the same move: axis order
    # [batch dims without task_dim ..., data, task].  Decided in the axis-order domain for every rank n <= 6 and every task_dim.
    from ..domains.axes import AxesUnknown, apply_chain
    from ..symbolic import inline as _inline, walk_paths as _walk_paths
    fb = idx.method(cls, "from_batch_mvn", own=True)
    mvn_p = fb.params[1]
    td_p = fb.params[2] if len(fb.params) > 2 else "task_dim"
    bprobs = []
    nctor = 0
    for path, seq in _walk_paths(fb):
        if path.outcome != RETURN:
            continue
        for st, env in seq:
            if not isinstance(st, ast.stmt):
                continue
            for c in (x for x in ast.walk(st) if isinstance(x, ast.Call)):
                if src(c.func) not in ("cls", "MultitaskMultivariateNormal"):
                    continue
                nctor += 1
                kw = {k.arg: _inline(k.value, env) for k in c.keywords}
                me = kw.get("mean", _inline(c.args[0], env) if c.args else None)
                ce = kw.get("covariance_matrix", _inline(c.args[1], env) if len(c.args) > 1 else None)
                if "interleaved" in kw and not (isinstance(kw["interleaved"], ast.Constant) and kw["interleaved"].value is True):
                    bprobs.append("the result is not flagged interleaved (BlockInterleaved covariance)")
                if not (isinstance(ce, ast.Call) and (chain(ce.func) or "").split(".")[-1] == "BlockInterleavedLinearOperator"):
                    bprobs.append("the covariance is not a BlockInterleavedLinearOperator")
                    continue
                bd = [k.value for k in ce.keywords if k.arg == "block_dim"]
                if not bd:
                    bprobs.append("no block_dim given")
                    continue
                # evaluate for concrete ranks: n = mean.dim() = len(batch_shape) + 1, task_dim = k (already normalised, >= 0)
                try:
                    for nb in range(1, 6):
                        n_ = nb + 1
                        for k_ in range(nb):
                            opaque = {}
                            for x in list(ast.walk(me)) + list(ast.walk(bd[0])):
                                if isinstance(x, ast.Call) and isinstance(x.func, ast.Attribute) and x.func.attr in ("dim", "ndimension") and not x.args:
                                    opaque[ast.dump(x)] = n_
                                if isinstance(x, ast.Call) and chain(x.func) == "len" and x.args and src(x.args[0]).endswith("batch_shape"):
                                    opaque[ast.dump(x)] = nb
                            envv = dict(opaque)
                            envv[td_p] = k_
                            from ..domains.axes import ieval
                            if ieval(bd[0], envv) != k_:
                                bprobs.append("block_dim is `%s`, not the task dimension" % src(bd[0])[:40])
                                raise StopIteration
                            got = apply_chain(me, lambda e_: chain(e_) in ("%s.mean" % mvn_p, "%s.loc" % mvn_p), n_, envv)
                            if got is None:
                                raise AxesUnknown("the mean is not a chain of axis operations on %s.mean" % mvn_p)
                            want = [d for d in range(nb) if d != k_] + [nb, k_]
                            if got != want:
                                bprobs.append("for batch rank %d and task_dim=%d the mean's axes are %s but the covariance keeps the remaining batch dimensions in order %s (+ data, task): mean and covariance of different batch elements are paired" % (nb, k_, got, want))
                                raise StopIteration
                except StopIteration:
                    pass
                except AxesUnknown as e_:
                    rep.observe("C11-3", MOD + ":MultitaskMultivariateNormal.from_batch_mvn[axes]", fb.where, "axis order of the mean not decided (%s)" % str(e_)[:80])
    ok = nctor >= 1 and not bprobs
    rep.add("C11-3", MOD + ":MultitaskMultivariateNormal.from_batch_mvn", fb.where, ok, "interleaved covariance (BlockInterleaved over task_dim); the task axis of the mean is moved last and the other batch axes keep their order (all batch ranks 1..5, every task_dim)" if ok else "from_batch_mvn: " + ("; ".join(sorted(set(bprobs))) or "no construction found"), {})
    # to_data_independent_dist stride table (on inlined expressions: n, t are the last two sizes of self.mean)
    from ..symbolic import inline, walk_paths
    td = idx.method(cls, "to_data_independent_dist", own=True)
    strides = {}
    tprobs = []

    def sym(e) -> Optional[str]:
        """'n' / 't' / 'n*t' / '1' for size expressions built from self.mean.shape[-2:]"""
        if isinstance(e, ast.Constant) and e.value == 1:
            return "1"
        if isinstance(e, ast.BinOp) and isinstance(e.op, ast.Mult):
            a_, b_ = sym(e.left), sym(e.right)
            return "n*t" if {a_, b_} == {"n", "t"} else None
        if isinstance(e, ast.Subscript) and isinstance(e.slice, ast.Constant) and e.slice.value in (0, 1) and "shape" in src(e.value) and chain(e.value.value if isinstance(e.value, ast.Subscript) else e.value) in ("self.mean.shape", "self.loc.shape"):
            return "n" if e.slice.value == 0 else "t"
        if isinstance(e, ast.Subscript) and chain(e.value) in ("self.mean.shape", "self.loc.shape") and isinstance(e.slice, ast.UnaryOp) and isinstance(e.slice.operand, ast.Constant):
            return {2: "n", 1: "t"}.get(e.slice.operand.value)
        if chain(e) == "self.num_tasks":
            return "t"
        return None

    def arange(e):
        """(stop, step) symbols of a torch.arange expression, looking through view/unsqueeze/to"""
        while isinstance(e, ast.Call) and isinstance(e.func, ast.Attribute) and e.func.attr in ("view", "unsqueeze", "reshape", "to"):
            e = e.func.value
        if isinstance(e, ast.Call) and chain(e.func) == "torch.arange":
            pos = e.args
            if len(pos) == 1:
                return sym(pos[0]), "1"
            if len(pos) == 2:
                return sym(pos[1]), "1"
            if len(pos) >= 3:
                return sym(pos[1]), sym(pos[2])
        return None

    def per_point(e) -> bool:
        return isinstance(e, ast.Call) and isinstance(e.func, ast.Attribute) and e.func.attr in ("view", "reshape") and [src(a_) for a_ in e.args] == ["-1", "1", "1"]

    for path, seq in walk_paths(td):
        lay = None
        for s_ in path.steps:
            if s_.kind == "assume":
                t_, neg = s_.node, False
                while isinstance(t_, ast.UnaryOp) and isinstance(t_.op, ast.Not):
                    t_, neg = t_.operand, not neg
                if chain(t_) == "self._interleaved":
                    lay = (s_.truth != neg)
        for st, env in seq:
            if not (isinstance(st, ast.Return) and st.value is not None):
                continue
            r = inline(st.value, env)
            for sub in (x for x in ast.walk(r) if isinstance(x, ast.Subscript) and isinstance(x.slice, ast.Tuple) and len(x.slice.elts) == 3 and chain(x.value) in ("self.lazy_covariance_matrix", "self._covar")):
                for axis, e in zip(("rows", "cols"), sub.slice.elts[1:]):
                    if not (isinstance(e, ast.BinOp) and isinstance(e.op, ast.Add)):
                        tprobs.append("the %s index is not <point offset> + <task offset>" % axis)
                        continue
                    pp, pt = (e.left, e.right) if per_point(e.left) else (e.right, e.left)
                    if not per_point(pp):
                        tprobs.append("no per-point offset (.view(-1, 1, 1)) in the %s index" % axis)
                        continue
                    ap, at = arange(pp), arange(pt)
                    strides[(lay, axis)] = (ap, at)
    want = {True: (("n*t", "t"), ("t", "1")), False: (("n", "1"), ("n*t", "n"))}
    for lay in (True, False):
        for axis in ("rows", "cols"):
            got = strides.get((lay, axis))
            if got != want[lay]:
                tprobs.append("interleaved=%s, %s: (point (stop, step), task (stop, step)) = %s, expected %s" % (lay, axis, got, want[lay]))
    ok = not tprobs
    rep.add("C11-3", MOD + ":MultitaskMultivariateNormal.to_data_independent_dist[strides]", td.where, ok,
            "point/task strides are (num_tasks, 1) when interleaved and (1, num_data) otherwise, on both covariance axes" if ok else "stride table of to_data_independent_dist: %s" % "; ".join(sorted(set(tprobs))[:3]), {"strides": {str(k): str(v) for k, v in strides.items()}})


def layout_kept_outside(idx: ProgramIndex, rep: Report):
    """Outside the distribution classes a distribution that may be a MultitaskMultivariateNormal is re-built with
    `d.__class__(mean, covariance)` in the prediction code.  For a multitask distribution that runs the constructor with the default
    interleaved=True whatever d's layout is (the same defect as C11-3's inherited re-construction, one level up): the result carries
    the covariance of a task-major prior under the label 'interleaved'.  A site is fine if it passes `interleaved=` from d, goes through
    the construction hook (`d._new_like`), or if the function rejects non-interleaved input.  Judged where the re-built object is the
    model's prior / joint output (`train_prior_dist`, the output of the model's forward): those are multitask for multitask models."""
    rep.rule("C11-5", "prediction code re-builds a possibly-multitask distribution with its layout: `d.__class__(mean, cov)` passes interleaved=d._interleaved, uses d._new_like, or the function rejects non-interleaved input")
    n = 0
    for fi in sorted(idx.all_functions(), key=lambda f: (f.module.name, f.qualname)):
        if fi.module.name.startswith(idx.package + ".distributions"):
            continue
        sites = []
        for c in calls_in(fi.node):
            f = c.func
            if isinstance(f, ast.Attribute) and f.attr == "__class__" and chain(f.value) not in (None, "self") :
                base = chain(f.value) or ""
                if base.split(".")[-1] in ("train_prior_dist", "full_output", "function_dist", "output", "joint_dist") or base.endswith("prior_dist"):
                    sites.append((c, base))
        if not sites:
            continue
        # only code that handles multitask distributions at all: the enclosing class (or function) speaks about tasks.  Strategies that
        # can never receive a multitask prior (their kernels produce n x n covariances) re-build plain MultivariateNormals only
        scope = fi.cls.node if fi.cls is not None else fi.node
        multitask_aware = any((isinstance(x, ast.Name) and ("task" in x.id.lower())) or (isinstance(x, ast.Attribute) and "task" in x.attr.lower()) for x in ast.walk(scope))
        if not multitask_aware:
            continue
        rejects = any(isinstance(x, ast.If) and any(isinstance(y, ast.Attribute) and y.attr in ("_interleaved", "interleaved") or (isinstance(y, ast.Constant) and y.value == "_interleaved") for y in ast.walk(x.test))
                      and any(isinstance(z, ast.Raise) for b_ in x.body for z in ast.walk(b_)) for x in ast.walk(fi.node))
        bad = []
        for c, base in sites:
            kw = {k.arg for k in c.keywords}
            hooked = False
            if "interleaved" in kw or rejects or hooked:
                continue
            bad.append("`%s` (line %d)" % (" ".join(src(c).split())[:60], c.lineno))
        n += 1
        rep.add("C11-5", "%s:%s[re-construction of the prior / joint output]" % (fi.module.name, fi.qualname), fi.where, not bad,
                "%d re-construction(s), layout passed on / consulted" % len(sites) if not bad else
                ", ".join(bad) + ": a MultitaskMultivariateNormal with interleaved=False (task-major covariance, e.g. from_independent_mvns or a Kronecker prior built task-major) is re-built as interleaved; the slices at num_train and the returned posterior then pair means and covariances of different (point, task) entries", {"sites": len(sites)})
    rep.floor("C11-5", "functions re-building the prior / joint output", n, 3)


def run(idx: ProgramIndex, rep: Report, tier: str):
    rep.explanation = (
        "C11-1/2: MultitaskMultivariateNormal.__getitem__ is typed path by path in a small units-of-measure system (ROW, COL, "
        "their slices and steps, FLAT{row,col}, PER_ROW = num_cols, NROWS): ROW*num_cols -> FLAT{row}, COL coerces to FLAT{col}, "
        "sums need disjoint parts, flat slices need complete start/stop and the step of the sliced dimension, both covariance axes "
        "must be indexed with the same complete flat selection; every component must have passed the normaliser of its own dimension; "
        "the slice normaliser must clamp. C11-3: a layout type system (flat task-major / flat interleaved / natural / transposed) "
        "checks view/transpose/reshape chains of mean, variance, rsample, get_base_samples, log_prob and the constructor for both "
        "layouts, the flag at every re-construction site and the stride table of to_data_independent_dist. Values are not decided.")
    rep.rule("C11-1", "flattened-index arithmetic is stride-unit consistent; roles of row/col follow the layout")
    rep.rule("C11-2", "one normalisation (with the size of the component's own dimension) before arithmetic; the slice normaliser clamps")
    rep.rule("C11-3", "every layout-sensitive accessor converts between flat storage order and natural (n, t) layout correctly for both layouts; flag propagated")
    check_getitem(idx, rep)
    check_layout(idx, rep)
    layout_kept_outside(idx, rep)
    constructor_bypass(idx, rep)
    binary_layouts(idx, rep)
    constructor_flag(idx, rep)
    from .common_alias import aliasing_obligations
    rep.rule("C11-6", "the caller's batch indices and computed event index tensors never share a subscript (advanced indices in one subscript are zipped element-wise)")
    rep.rule("C11-4", "no in-place aliasing hazard in MultitaskMultivariateNormal (storage/version domain)")
    helpers = [f for f in idx.module(MOD).functions.values() if f.name.startswith("_normalize")]
    if len(helpers) < 2:
        raise AnalysisError("C11-4: the index normalisers of the multitask distribution vanished (anchor)")
    aliasing_obligations(idx, rep, "C11-4", list(idx.cls(MOD, "MultitaskMultivariateNormal").methods.values()) + helpers, 12, "MultitaskMultivariateNormal methods and index normalisers interpreted", helper_functions=True)


# ---- C11-7 ---------------------------------------------------------------------------------------------------------
def constructor_bypass(idx: ProgramIndex, rep: Report):
    """MultivariateNormal.expand / unsqueeze build the result for dense covariances with `self.__new__(type(self))` and torch's constructor,
    i.e. WITHOUT the constructor of the subclass: the multitask layout (_interleaved, _output_shape) is not there afterwards.  Every subclass
    that adds state in its constructor has to override each such method."""
    rep.rule("C11-7", "a method of MultivariateNormal that creates the result with __new__ (bypassing the subclass constructor) is overridden by every subclass whose constructor adds state")
    M = idx.cls("gpytorch.distributions.multivariate_normal", "MultivariateNormal")
    bypass = []
    for name, m in sorted(M.methods.items()):
        if any(isinstance(c, ast.Call) and isinstance(c.func, ast.Attribute) and c.func.attr == "__new__" for c in ast.walk(m.node)):
            bypass.append(m)
    if not bypass:
        raise AnalysisError("C11-7: no method of MultivariateNormal builds its result with __new__ any more (anchor vanished)")
    base_init = idx.method(M, "__init__", own=True)
    base_attrs = {t.attr for a in ast.walk(base_init.node) if isinstance(a, ast.Assign) for t in a.targets if isinstance(t, ast.Attribute) and chain(t.value) == base_init.params[0]}
    n = 0
    for cls in sorted(idx.subclasses(M, strict=True), key=lambda c: c.qualname):
        init = cls.methods.get("__init__")
        if init is None:
            continue
        own = sorted({t.attr for a in ast.walk(init.node) if isinstance(a, ast.Assign) for t in a.targets if isinstance(t, ast.Attribute) and chain(t.value) == init.params[0]} - base_attrs)
        if not own:
            continue
        for m in bypass:
            n += 1
            ok = m.name in cls.methods
            rep.add("C11-7", "%s:%s.%s[constructor bypassed by the inherited method]" % (cls.module.name, cls.qualname, m.name), m.where, ok,
                    "%s overrides %s" % (cls.qualname, m.name) if ok else
                    "MultivariateNormal.%s builds the result for dense covariances with self.__new__(type(self)) and torch's constructor; %s.__init__ adds %s, which the result then lacks: %s(mean, dense covariance).%s(...) returns an object whose mean / event_shape / log_prob raise AttributeError" % (m.name, cls.qualname, ", ".join("self." + a for a in own), cls.qualname, m.name), {})
    rep.floor("C11-7", "constructor-bypassing methods x subclasses with own state", n, 2)


# ---- C11-8 ---------------------------------------------------------------------------------------------------------
def binary_layouts(idx: ProgramIndex, rep: Report):
    """p + q and KL(p || q) combine the flattened means / covariances of both operands.  Two multitask distributions may store the same
    joint Gaussian in different layouts; an operation that takes `other.lazy_covariance_matrix` as it is must consult the layout of
    `other` as well as its own."""
    rep.rule("C11-8", "binary operations that combine the covariances of two (possibly multitask) distributions consult the layout of both operands")
    M = idx.cls("gpytorch.distributions.multivariate_normal", "MultivariateNormal")
    T = idx.cls(MOD, "MultitaskMultivariateNormal")
    sites = []
    add = M.methods.get("__add__")
    if add is not None:
        sites.append(("MultivariateNormal.__add__", add, add.params[0], add.params[1]))
    kl = idx.function("gpytorch.distributions.multivariate_normal", "kl_mvn_mvn")
    sites.append(("kl_mvn_mvn", kl, kl.params[0], kl.params[1]))
    n = 0
    for label, fi, a, b in sites:
        own = T.methods.get(fi.name) if fi.cls is not None else None
        f = own or fi
        combines = any(isinstance(x, ast.Attribute) and x.attr in ("lazy_covariance_matrix", "covariance_matrix") and isinstance(x.value, ast.Name) and x.value.id == b for x in ast.walk(fi.node))
        if not combines:
            continue
        n += 1
        consults = sum(1 for x in ast.walk(f.node) if isinstance(x, ast.Attribute) and x.attr in ("_interleaved", "interleaved")) >= 2 or \
            any(isinstance(c, ast.Call) and isinstance(c.func, ast.Attribute) and "layout" in c.func.attr for c in ast.walk(f.node))
        rep.add("C11-8", "%s[layout of both operands]" % label, f.where, consults,
                "the layouts of both operands are compared / aligned" if consults else
                "%s combines the flattened mean and covariance of `%s` with its own (or the first operand's) as they are; for two MultitaskMultivariateNormals in different layouts (interleaved / task-major) holding the SAME joint Gaussian, p + q has a covariance 6.3 off 2 Sigma and kl_divergence(p, q) = 1.54 instead of 0" % (label, b), {})
    rep.floor("C11-8", "binary operations over two distributions", n, 2)


# ---- C11-9 ---------------------------------------------------------------------------------------------------------
def constructor_flag(idx: ProgramIndex, rep: Report):
    """The layout flag stored by the constructor is what every accessor consults.  It must be the caller's `interleaved`; where the
    constructor relaxes it with facts about the event shape (one task / one point: both layouts coincide), those facts must be read
    from the mean it STORES (after broadcasting against the covariance), not from the mean as it was passed in."""
    from ..symbolic import inline, walk_paths
    rep.rule("C11-9", "the constructor records the caller's layout: _interleaved is the `interleaved` argument (un-negated), and any shape fact mixed into it is read from the broadcast mean the distribution stores, not from the argument before broadcasting")
    T = idx.cls(MOD, "MultitaskMultivariateNormal")
    init = T.methods.get("__init__")
    if init is None or "interleaved" not in ([a.arg for a in init.node.args.args] + [a.arg for a in init.node.args.kwonlyargs]):
        raise AnalysisError("C11-9: MultitaskMultivariateNormal.__init__(..., interleaved) not found (anchor)")
    params = {a.arg for a in init.node.args.args + init.node.args.kwonlyargs} - {"self", "interleaved", "validate_args"}
    probs, paths = set(), 0
    for path, seq in walk_paths(init):
        flag = final = None
        for st, env in seq:
            if isinstance(st, ast.Assign) and len(st.targets) == 1 and isinstance(st.targets[0], ast.Attribute) and isinstance(st.targets[0].value, ast.Name) and st.targets[0].value.id == "self":
                if st.targets[0].attr == "_interleaved":
                    flag = inline(st.value, env)
                elif st.targets[0].attr == "_output_shape":
                    v = inline(st.value, env)
                    if isinstance(v, ast.Attribute) and v.attr == "shape":
                        final = v.value
        if flag is None:
            continue
        paths += 1
        if isinstance(flag, ast.Name) and flag.id == "interleaved":
            continue
        names = [n for n in ast.walk(flag) if isinstance(n, ast.Name) and n.id == "interleaved"]
        if not names:
            probs.add("_interleaved = `%s` does not depend on the `interleaved` argument" % src(flag)[:60])
            continue
        if any(isinstance(n, ast.UnaryOp) and isinstance(n.op, ast.Not) and any(m in names for m in ast.walk(n)) for n in ast.walk(flag)):
            probs.add("_interleaved stores the negated argument")
            continue
        fd = ast.dump(final) if final is not None else None
        # every other reference to a constructor argument must be inside the stored (broadcast) mean
        inside = set()
        for n in ast.walk(flag):
            if fd is not None and ast.dump(n) == fd:
                inside |= {id(m) for m in ast.walk(n)}
        stale = sorted({n.id for n in ast.walk(flag) if isinstance(n, ast.Name) and n.id in params and id(n) not in inside})
        if stale:
            probs.add("the flag is relaxed with shape facts of `%s` as passed in, not of the broadcast mean the distribution stores (a 1 x t or n x 1 mean is expanded against the covariance): a task-major distribution is silently read as interleaved" % ", ".join(stale))
    if not paths:
        raise AnalysisError("C11-9: no path of the constructor assigns self._interleaved (anchor)")
    rep.add("C11-9", "%s:MultitaskMultivariateNormal.__init__[layout flag]" % MOD, init.where, not probs,
            "%d path(s): the stored flag is the argument" % paths if not probs else "; ".join(sorted(probs)), {"paths": paths})
