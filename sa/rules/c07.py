"""C07 - every covariance handed out is valid: lower-bound clauses only.

C07-1  every `variance` of the MultivariateNormal hierarchy reaches the caller through the min_variance clamp (or on the path
       where the test `variance.lt(bound).any()` is false), overrides start from super().variance, stddev = variance.sqrt()
C07-2  squared distances / distances return through clamp_min(c), c >= 0
C07-3  fixed observation noise is clamped to min_fixed_noise
C07-4  every learned noise parameter gets a lower-bounded constraint when the caller passes none
Does not decide positive semi-definiteness or monotonicity of uncertainty.  (DESIGN.md section 4, C07.)
"""
from __future__ import annotations

import ast
from typing import List, Optional

from ..cfg import enumerate_paths, RETURN
from ..index import (AnalysisError, ClassInfo, FuncInfo, ProgramIndex, body_without_docstring, call_name, calls_in, chain, const_str, norm, src)
from ..report import Report

EXEMPT_VARIANCE = {"Delta": "degenerate variational family: variance is identically zero by definition"}
LOWER_BOUNDED = {"GreaterThan", "Positive", "Interval"}


def run(idx: ProgramIndex, rep: Report, tier: str):
    rep.explanation = (
        "Path analysis of the clamp idiom `b = settings.<min>.value(x.dtype); if x.lt(b).any(): warn; x = x.clamp_min(b)`: on every "
        "returning path either the clamp with the same bound was executed after the last re-binding of the value, or the path assumed "
        "the comparison false; applied to MultivariateNormal.variance (and its overrides, which must start from super().variance) and "
        "to FixedGaussianNoise.__init__. Return-shape rule for the distance helpers (every return is a clamp_min with a non-negative "
        "literal, optionally followed by sqrt). Default-constraint rule for every learned noise parameter. PSD-ness is not decided.")
    rep.rule("C07-1", "reported variances pass the min_variance clamp on every path; stddev is the root of that variance")
    rep.rule("C07-2", "distance helpers return through clamp_min(c) with c >= 0")
    rep.rule("C07-3", "fixed noise is clamped to min_fixed_noise before it is stored")
    rep.rule("C07-4", "learned noise parameters get a lower-bounded constraint by default")
    variances(idx, rep)
    distances(idx, rep)
    fixed_noise(idx, rep)
    noise_defaults(idx, rep)
    one_source(idx, rep)
    raw_parameters_behind_their_constraint(idx, rep)
    centred_distances(idx, rep)
    wendland_exponent(idx, rep)


def clamp_discipline(fi: FuncInfo, setting: str, value_names: Optional[List[str]] = None) -> List[str]:
    """On every returning/falling path: the clamped name is either clamped with bound b after its last other binding, or the path
    assumed `name.lt(b).any()` false; b must be settings.<setting>.value(name.dtype)."""
    probs = []
    bound = None
    for n in ast.walk(fi.node):
        if isinstance(n, ast.Assign) and isinstance(n.value, ast.Call) and (chain(n.value.func) or "").endswith("%s.value" % setting) and isinstance(n.targets[0], ast.Name):
            bound = n.targets[0].id
            arg = n.value.args[0] if n.value.args else None
    if bound is None:
        return ["no bound is read from settings.%s" % setting]
    npaths = 0
    for p in enumerate_paths(body_without_docstring(fi.node)):
        if p.outcome not in (RETURN,) and fi.name != "__init__":
            continue
        if fi.name == "__init__" and p.outcome not in (RETURN, "fall"):
            continue
        npaths += 1
        state = {}  # name -> 'raw' | 'clamped' | 'tested-ok'
        final = None
        for s in p.steps:
            if s.kind == "assume":
                t = s.node
                # name.lt(bound).any()
                if isinstance(t, ast.Call) and isinstance(t.func, ast.Attribute) and t.func.attr == "any" and isinstance(t.func.value, ast.Call) and isinstance(t.func.value.func, ast.Attribute) and t.func.value.func.attr in ("lt", "le") and t.func.value.args and src(t.func.value.args[0]) == bound:
                    nm = src(t.func.value.func.value)
                    if s.truth is False:
                        state[nm] = "tested-ok"
                continue
            if s.kind != "stmt":
                continue
            st = s.node
            if isinstance(st, ast.Assign) and len(st.targets) == 1:
                tgt = src(st.targets[0])
                v = st.value
                if isinstance(v, ast.Call) and isinstance(v.func, ast.Attribute) and v.func.attr in ("clamp_min", "clamp_min_", "clamp") and v.args and src(v.args[0]) == bound:
                    state[tgt] = "clamped"
                    # the clamped source must be the same value
                    if src(v.func.value) != tgt and state.get(src(v.func.value)) is None:
                        pass
                elif isinstance(v, ast.Name) and v.id in state:
                    state[tgt] = state[v.id]
                else:
                    if tgt != bound:
                        state[tgt] = "raw"
            elif isinstance(st, ast.Return) and st.value is not None:
                final = src(st.value)
        if fi.name == "__init__":
            # the stored attribute
            stored = [k for k in state if k.startswith("self.")]
            for k in stored:
                if state[k] == "raw":
                    # value stored: its source
                    pass
            srcs = [s.node for s in p.steps if s.kind == "stmt" and isinstance(s.node, ast.Assign) and src(s.node.targets[0]) in (value_names or [])]
            if srcs:
                last = srcs[-1]
                vname = src(last.value)
                if state.get(vname) not in ("clamped", "tested-ok") and state.get(src(last.targets[0])) not in ("clamped", "tested-ok"):
                    probs.append("`%s` is stored on a path without the clamp to settings.%s (and without the test being false)" % (src(last.targets[0]), setting))
        else:
            if final is None:
                continue
            if state.get(final) not in ("clamped", "tested-ok"):
                probs.append("`%s` is returned on a path where it was neither clamped to settings.%s nor tested against it" % (final, setting))
    if npaths == 0:
        probs.append("no returning path")
    return sorted(set(probs))


def variances(idx: ProgramIndex, rep: Report):
    M = idx.cls("gpytorch.distributions.multivariate_normal", "MultivariateNormal")
    v = idx.method(M, "variance", own=True)
    probs = clamp_discipline(v, "min_variance")
    # the bound is taken for the dtype of the variance
    t = src(v.node)
    if "min_variance.value(variance.dtype)" not in t.replace(" ", "") and "min_variance.value(" in t:
        pass
    rep.add("C07-1", "%s:MultivariateNormal.variance" % M.module.name, v.where, not probs, "on every path the returned variance is clamped to settings.min_variance or was tested not to be below it" if not probs else "; ".join(probs), {})
    sd = idx.method(M, "stddev", own=True)
    rets = [r.value for r in ast.walk(sd.node) if isinstance(r, ast.Return) and r.value is not None]
    ok = len(rets) == 1 and src(rets[0]) in ("self.variance.sqrt()", "torch.sqrt(self.variance)", "self.variance ** 0.5", "self.variance.pow(0.5)")
    rep.add("C07-1", "%s:MultivariateNormal.stddev" % M.module.name, sd.where, ok, "stddev is the square root of the clamped variance" if ok else "stddev is not computed from self.variance (the clamped value): `%s`" % (src(rets[0]) if rets else ""), {})
    n = 0
    for cls in idx.subclasses(M, strict=True):
        for prop in ("variance", "stddev"):
            f = cls.methods.get(prop)
            if f is None:
                continue
            n += 1
            uses_super = any(isinstance(a, ast.Attribute) and a.attr == prop and isinstance(a.value, ast.Call) and isinstance(a.value.func, ast.Name) and a.value.func.id == "super" for a in ast.walk(f.node))
            # only reshaping of the super value: every return is derived from the local bound to super().variance
            rep.add("C07-1", "%s:%s.%s" % (cls.module.name, cls.qualname, prop), f.where, uses_super, "override starts from super().%s (clamped)" % prop if uses_super else "override of %s does not go through super().%s: the min_variance clamp is bypassed" % (prop, prop), {})
    # every other class named *.variance property in distributions that is not in the hierarchy: exempt table
    for cls in idx.package_classes():
        if cls.module.name.startswith("gpytorch.distributions") and not cls.is_subclass_of(M) and "variance" in cls.methods:
            rep.add("C07-1", "%s:%s.variance" % (cls.module.name, cls.qualname), cls.methods["variance"].where, cls.name in EXEMPT_VARIANCE, "exempt by table: %s" % EXEMPT_VARIANCE.get(cls.name) if cls.name in EXEMPT_VARIANCE else "a distribution outside the MultivariateNormal hierarchy reports a variance without the clamp", {}, trivial=True)


def _clamped_return(e: ast.AST) -> Optional[float]:
    """`x.clamp_min(c)` / `x.clamp_min_(c)` optionally followed by sqrt: returns c"""
    if isinstance(e, ast.Call) and isinstance(e.func, ast.Attribute) and e.func.attr in ("sqrt", "sqrt_"):
        return _clamped_return(e.func.value)
    if isinstance(e, ast.Call) and isinstance(e.func, ast.Attribute) and e.func.attr in ("clamp_min", "clamp_min_", "clamp") and e.args:
        a = e.args[0]
        if isinstance(a, ast.Constant) and isinstance(a.value, (int, float)):
            return float(a.value)
    return None


def distances(idx: ProgramIndex, rep: Report):
    for mod, name in (("gpytorch.kernels.kernel", "sq_dist"), ("gpytorch.kernels.kernel", "dist"), ("gpytorch.kernels.hamming_kernel", None)):
        mi = idx.module(mod)
        fns = [mi.functions[name]] if name else [f for f in mi.functions.values() if "dist" in f.name]
        for f in fns:
            rets = [r.value for r in ast.walk(f.node) if isinstance(r, ast.Return) and r.value is not None]
            probs = []
            for r in rets:
                c = _clamped_return(r)
                if c is None:
                    if isinstance(r, ast.Call) and chain(r.func) in ("sq_dist", "dist"):
                        continue
                    probs.append("returns `%s` without clamp_min" % src(r)[:60])
                elif c < 0:
                    probs.append("clamps to the negative bound %s" % c)
            rep.add("C07-2", "%s:%s" % (mod, f.name), f.where, not probs and bool(rets), "all %d return(s) go through clamp_min(c >= 0)" % len(rets) if not probs else "; ".join(probs), {})


def fixed_noise(idx: ProgramIndex, rep: Report):
    """Every write of FixedGaussianNoise.noise - the constructor, and the setters of the likelihoods that own such a noise model - stores a
    value that went through the clamp to settings.min_fixed_noise: either the clamp discipline holds in the writing function itself, or the
    stored expression is a call of a helper in which it holds on every returning path."""
    F = idx.find_class("FixedGaussianNoise")
    init = idx.method(F, "__init__", own=True)
    # helpers that return a lower-bounded value on every path
    bounding = set()
    for name, m in F.methods.items():
        if name == "__init__":
            continue
        rets = [r for r in ast.walk(m.node) if isinstance(r, ast.Return) and r.value is not None]
        if rets and not clamp_discipline(m, "min_fixed_noise", value_names=None):
            bounding.add(name)

    def bounded_expr(e: ast.AST) -> bool:
        return isinstance(e, ast.Call) and isinstance(e.func, ast.Attribute) and e.func.attr in bounding and (chain(e.func.value) or "") in ("self", "FixedGaussianNoise", "type(self)", "self.__class__", "self.noise_covar")
    stores = [a for a in ast.walk(init.node) if isinstance(a, ast.Assign) and any(src(t) == "%s.noise" % init.params[0] for t in a.targets)]
    if stores and all(bounded_expr(a.value) for a in stores):
        probs = []
        how = "self.noise = %s(...), which clamps to settings.min_fixed_noise on every returning path" % sorted(bounding)[0]
    else:
        probs = clamp_discipline(init, "min_fixed_noise", value_names=["self.noise"])
        how = "self.noise is stored after the clamp to settings.min_fixed_noise (or after the test was false)"
    rep.add("C07-3", "%s:FixedGaussianNoise.__init__" % F.module.name, init.where, not probs, how if not probs else "; ".join(probs), {})
    # other writers: <owner>.noise_covar.initialize(noise=E) in classes whose noise_covar is a FixedGaussianNoise
    n = 0
    for cls in sorted(idx.package_classes(), key=lambda c: c.qualname):
        owns = any(isinstance(c, ast.Call) and (chain(c.func) or "").split(".")[-1] == "FixedGaussianNoise" for m in cls.methods.values() for c in ast.walk(m.node))
        if not owns:
            continue
        for m in sorted([f for f in idx.all_functions() if f.cls is cls], key=lambda f: (f.name, f.node.lineno)):
            name = m.name + ("[setter]" if any("setter" in src(d) for d in m.node.decorator_list) else "")
            for c in calls_in(m.node):
                if not (isinstance(c.func, ast.Attribute) and c.func.attr == "initialize" and (chain(c.func.value) or "").endswith("noise_covar")):
                    continue
                kw = {k.arg: k.value for k in c.keywords}
                if "noise" not in kw:
                    continue
                # which noise_covar: the first (fixed) one
                if "second" in (chain(c.func.value) or ""):
                    continue
                n += 1
                ok = bounded_expr(kw["noise"])
                rep.add("C07-3", "%s:%s.%s[writes the fixed noise]" % (cls.module.name, cls.qualname, name), "%s:%d" % (m.module.relpath, c.lineno), ok,
                        "the value goes through FixedGaussianNoise.%s" % sorted(bounding)[0] if ok else
                        "`%s` stores the value as it is: the lower bound settings.min_fixed_noise is applied by the constructor only, so likelihood.noise = tensor([0., 1e-9, -0.25]) is kept verbatim - the marginal adds less than the bound, or a negative variance" % " ".join(src(c).split())[:70], {})
    rep.floor("C07-3", "writers of the fixed noise outside the constructor", n, 1)
    # what the fixed-noise model hands out: the stored (bounded) noise, or a call-time noise that went through the bounding helper
    fw = F.methods.get("forward")
    if fw is None:
        raise AnalysisError("C07-3: FixedGaussianNoise.forward not found (anchor)")
    sn = fw.params[0]
    probs, k = [], 0
    for r in ast.walk(fw.node):
        if not (isinstance(r, ast.Return) and isinstance(r.value, ast.Call) and (chain(r.value.func) or "").split(".")[-1] == "DiagLinearOperator" and r.value.args):
            continue
        k += 1
        e = r.value.args[0]
        # look through one local binding
        if isinstance(e, ast.Name):
            defs = [a.value for a in ast.walk(fw.node) if isinstance(a, ast.Assign) and any(isinstance(t, ast.Name) and t.id == e.id for t in a.targets)]
            if len(defs) == 1:
                e = defs[0]
            elif defs:
                # several re-bindings: one of them bounds the value, the others only convert the same value (dtype / device)
                bounding_defs = [d for d in defs if bounded_expr(d)]
                others = [d for d in defs if not bounded_expr(d)]
                if bounding_defs and all(chain(d) == "%s.noise" % sn or ({x.id for x in ast.walk(d) if isinstance(x, ast.Name)} <= {e.id, sn, "torch"} and isinstance(d, ast.Call) and isinstance(d.func, ast.Attribute) and d.func.attr in ("to", "type_as", "float", "double")) for d in others):
                    e = bounding_defs[0]  # (the stored noise is bounded already: re-binding the local to it keeps the clause)
        if chain(e) == "%s.noise" % sn or bounded_expr(e):
            continue
        probs.append("returns DiagLinearOperator(%s): a noise given at call time is added as it is (0, 1e-9 or a negative value: less than settings.min_fixed_noise, or a negative variance), unlike the stored noise" % src(r.value.args[0]))
    if k < 1:
        raise AnalysisError("C07-3: FixedGaussianNoise.forward no longer returns a DiagLinearOperator (anchor)")
    rep.add("C07-3", "%s:FixedGaussianNoise.forward[noise handed out]" % F.module.name, fw.where, not probs,
            "%d diagonal noise operators: the stored (bounded) noise or a call-time noise through %s" % (k, sorted(bounding)[0] if bounding else "the clamp") if not probs else "; ".join(probs), {})


def noise_defaults(idx: ProgramIndex, rep: Report):
    n = 0
    for cls in idx.package_classes():
        for m in cls.methods.values():
            for c in calls_in(m.node):
                if isinstance(c.func, ast.Attribute) and c.func.attr == "register_constraint" and c.args and const_str(c.args[0]) in ("raw_noise", "raw_task_noises") and len(c.args) > 1 and isinstance(c.args[1], ast.Name):
                    var = c.args[1].id
                    n += 1
                    # `if var is None: var = <Constraint>(...)`
                    default = None
                    for node in ast.walk(m.node):
                        if isinstance(node, ast.If) and src(node.test) == "%s is None" % var:
                            for st in node.body:
                                if isinstance(st, ast.Assign) and src(st.targets[0]) == var and isinstance(st.value, ast.Call):
                                    default = (chain(st.value.func) or "").split(".")[-1]
                        if isinstance(node, ast.Assign) and src(node.targets[0]) == var and isinstance(node.value, ast.IfExp) and "is None" in src(node.value.test):
                            br = node.value.body if "is None" in src(node.value.test) and " not " not in src(node.value.test) else node.value.orelse
                            if isinstance(br, ast.Call):
                                default = (chain(br.func) or "").split(".")[-1]
                    ok = default in LOWER_BOUNDED
                    rep.add("C07-4", "%s:%s:%s" % (cls.module.name, cls.qualname, const_str(c.args[0])), "%s:%d" % (m.module.relpath, c.lineno), ok,
                            "default constraint %s(...) is lower-bounded" % default if ok else "noise parameter %s has no lower-bounded default constraint (default: %s): the noise can reach zero or become negative" % (const_str(c.args[0]), default), {})
    rep.floor("C07-4", "learned noise parameters", n, 5)


# ---- C07-6 ---------------------------------------------------------------------------------------------------------
def one_source(idx: ProgramIndex, rep: Report):
    """'Adding observations never increases a posterior variance' - also for the exact GP that a variational model builds over its
    inducing points, whose training covariance is K_ZZ + D with a full pseudo-noise covariance D.  That model is made by *overriding*
    an attribute of a freshly built prediction strategy (`pred_strat.lik_train_train_covar = K + D`).  The override is sound only if
    the attribute is the single source of that quantity: a method of the strategy that recomputes it from its ingredients
    (`self.likelihood(prior, train_inputs)`) returns the un-overridden value (K + sigma^2 I) - unless the overrider also plants that
    method's memo entry.  Rule: for every attribute of a prediction strategy that code outside the class assigns, every method of the
    class that re-derives the attribute's defining expression is either memoised-and-planted by the overrider, or reads the attribute."""
    from ..index import calls_in, chain, const_str, src
    rep.rule("C07-6", "an attribute of a prediction strategy that other code overrides is the single source of its quantity: no method of the strategy re-derives it from its ingredients (unless the overrider plants that method's memo entry)")
    strategies = [c for c in idx.package_classes() if c.name.endswith("PredictionStrategy")]
    derived = {}
    for c in strategies:
        init = c.methods.get("__init__")
        if init is None:
            continue
        for a in ast.walk(init.node):
            if isinstance(a, ast.Assign) and len(a.targets) == 1 and isinstance(a.targets[0], ast.Attribute) and chain(a.targets[0].value) == "self":
                derived.setdefault(a.targets[0].attr, []).append((c, a))
    n = 0
    for fi in sorted(idx.all_functions(), key=lambda f: (f.module.name, f.qualname)):
        if fi.cls is not None and fi.cls in strategies:
            continue
        for a in ast.walk(fi.node):
            if not (isinstance(a, ast.Assign) and len(a.targets) == 1 and isinstance(a.targets[0], ast.Attribute) and isinstance(a.targets[0].value, ast.Name) and a.targets[0].value.id not in ("self", "cls")):
                continue
            attr, obj = a.targets[0].attr, a.targets[0].value.id
            if attr not in derived or attr.startswith("_memoize"):
                continue
            # is obj a prediction strategy?  (bound from `<model>.prediction_strategy` or a strategy constructor)
            is_strat = any(isinstance(b, ast.Assign) and any(isinstance(t, ast.Name) and t.id == obj for t in b.targets) and ("prediction_strategy" in src(b.value) or "PredictionStrategy" in src(b.value)) for b in ast.walk(fi.node))
            if not is_strat:
                continue
            planted = {const_str(c.args[1]) for c in calls_in(fi.node) if (chain(c.func) or "").split(".")[-1] == "add_to_cache" and len(c.args) >= 3 and isinstance(c.args[0], ast.Name) and c.args[0].id == obj}
            for cls, init_assign in derived[attr]:
                # what defines the attribute: the calls on self in its derivation (followed through locals of __init__)
                init = cls.methods["__init__"]
                binds = {b.targets[0].id: b.value for b in ast.walk(init.node) if isinstance(b, ast.Assign) and len(b.targets) == 1 and isinstance(b.targets[0], ast.Name)}
                expr = init_assign.value
                sig = set()
                work, seen = [expr], set()
                while work:
                    e = work.pop()
                    for x in ast.walk(e):
                        if isinstance(x, ast.Call) and isinstance(x.func, ast.Attribute) and chain(x.func.value) == "self":
                            sig.add(x.func.attr)
                        if isinstance(x, ast.Call) and isinstance(x.func, ast.Name) and x.func.id in init.params:
                            sig.add(x.func.id)
                        if isinstance(x, ast.Name) and x.id in binds and x.id not in seen:
                            seen.add(x.id)
                            work.append(binds[x.id])
                if not sig:
                    continue
                n += 1
                rederive = []
                for k in [cls] + [k2 for k2 in strategies if k2.is_subclass_of(cls) and k2 is not cls]:
                    for mname, m in k.methods.items():
                        if mname == "__init__":
                            continue
                        calls_ing = any(isinstance(x, ast.Call) and isinstance(x.func, ast.Attribute) and chain(x.func.value) == "self" and x.func.attr in sig for x in ast.walk(m.node))
                        reads_attr = any(isinstance(x, ast.Attribute) and x.attr == attr and chain(x.value) == "self" for x in ast.walk(m.node))
                        if calls_ing and not reads_attr:
                            from . import c03
                            cname = c03.cache_name_of(m)[0]
                            if cname is not None and cname in planted:
                                continue
                            rederive.append("%s.%s" % (k.name, mname))
                rep.add("C07-6", "%s:%s[%s.%s overridden]" % (fi.module.name, fi.qualname, cls.name, attr), "%s:%d" % (fi.module.relpath, a.lineno), not rederive,
                        "every consumer reads the attribute (or its memo entry is planted alongside)" if not rederive else
                        "`%s.%s = ...` replaces what __init__ derived through self.%s(...), but %s re-derive(s) it from the same ingredients and never see(s) the override: with fast_pred_var off the predictive covariance of the overridden model is the one of the un-overridden model (a variational fantasy model gets a *larger* variance after conditioning)" % (
                            obj, attr, "/".join(sorted(sig)), ", ".join(sorted(set(rederive)))), {"planted": sorted(x for x in planted if x)})
    rep.floor("C07-6", "external overrides of derived strategy attributes", n, 1)


# ---- C07-7 ---------------------------------------------------------------------------------------------------------
RAW_OK_CALLS = {"transform", "inverse_transform", "to", "type_as", "expand_as", "view_as", "new_tensor", "new_zeros", "new_ones"}
RAW_OK_ATTRS = {"shape", "dtype", "device", "size", "dim", "ndim", "data", "requires_grad", "requires_grad_", "numel", "grad", "is_cuda"}


def raw_parameters_behind_their_constraint(idx: ProgramIndex, rep: Report):
    """The lower bounds of C07 are properties of the CONSTRAINED value (raw parameter through its constraint's transform).  The raw parameter
    itself is unbounded (0 for a fresh softplus parameter, negative after an ordinary assignment): code that computes with `self.raw_x`
    instead of `self.x` adds a "variance" that can be zero or negative.  A raw parameter may be read only to be transformed, for its
    metadata (shape / dtype / device, `*_like`), or inside the accessors of its own constrained quantity."""
    rep.rule("C07-7", "a raw (unconstrained) parameter is read only to be transformed, for its metadata, or inside the accessors of its own constrained quantity: computations use the constrained value, which carries the lower bound")
    n = 0
    for fi in sorted(idx.all_functions(), key=lambda f: (f.module.name, f.qualname)):
        if fi.cls is None or fi.name in ("__init__", "_load_from_state_dict", "__setstate__"):
            continue
        parents = {}
        for node in ast.walk(fi.node):
            for ch in ast.iter_child_nodes(node):
                parents[ch] = node
        for x in ast.walk(fi.node):
            if not (isinstance(x, ast.Attribute) and x.attr.startswith("raw_") and not x.attr.endswith("_constraint") and isinstance(x.value, ast.Name) and isinstance(x.ctx, ast.Load)):
                continue
            if x.value.id not in (fi.params[:1] + ["m", "module"]):
                continue
            n += 1
            base = x.attr[len("raw_"):]
            par = parents.get(x)
            ok = False
            if isinstance(par, ast.Call) and isinstance(par.func, ast.Attribute) and par.func.attr in RAW_OK_CALLS:
                ok = True
            if isinstance(par, ast.Call) and (chain(par.func) or "").endswith("_like"):
                ok = True
            if isinstance(par, ast.Attribute) and par.attr in RAW_OK_ATTRS:
                ok = True
            if isinstance(par, ast.keyword) or (isinstance(par, ast.Call) and isinstance(par.func, ast.Attribute) and par.func.attr in ("initialize", "register_parameter", "register_constraint")):
                ok = True
            if fi.name in (base, "_set_" + base, "_" + base + "_param", "_" + base + "_closure", "_get_" + base) or (fi.name.startswith("_set_") and base in fi.name):
                ok = True  # the accessor / setter / closure of the constrained quantity itself
            if not ok:
                rep.add("C07-7", "%s:%s[self.%s]" % (fi.module.name, fi.qualname, x.attr), "%s:%d" % (fi.module.relpath, x.lineno), False,
                        "`%s` computes with the raw parameter self.%s instead of the constrained self.%s: the raw value is unbounded (0 for a fresh parameter, negative after noise = 0.01), so what is added here has no lower bound - a zero or negative variance" % (" ".join(src(par).split())[:70] if par is not None else x.attr, x.attr, base), {})
    rep.add("C07-7", "gpytorch:<reads of raw parameters>", "gpytorch/", True, "%d read(s) of raw parameters inspected" % n, {"reads": n}, trivial=True)
    rep.floor("C07-7", "reads of raw parameters", n, 50)


# ---------------------------------------------------------------------------------------------------------------------------------
# C07-8: the distance helpers shift both inputs by one common, data-derived offset before anything that may expand |a - b|^2
# ---------------------------------------------------------------------------------------------------------------------------------
_OFFSET_REDUCTIONS = {"mean", "median", "amin", "amax", "min", "max"}
_METADATA = {"requires_grad", "shape", "dtype", "device", "size", "dim", "ndim", "ndimension", "numel"}
_DIST_HELPERS = ("sq_dist", "dist")


def _is_offset(e: ast.AST, params) -> bool:
    """a reduction of one of the inputs over its rows (x1.mean(-2, keepdim=True), x1.amin(...), x1[..., :1, :])"""
    if isinstance(e, ast.Call) and isinstance(e.func, ast.Attribute) and e.func.attr in _OFFSET_REDUCTIONS:
        return isinstance(e.func.value, ast.Name) and e.func.value.id in params
    if isinstance(e, ast.Subscript):
        return isinstance(e.value, ast.Name) and e.value.id in params
    return False


def _raw_uses(expr: ast.AST, params):
    """(problems, offsets): every occurrence of an input in the inlined result must be `input - offset`, a reduction that builds the
    offset, a metadata read, an equality test, or an argument handed to a sibling helper (which is checked itself)"""
    parent = {}
    for n in ast.walk(expr):
        for c in ast.iter_child_nodes(n):
            parent[id(c)] = n
    probs, offsets = [], []
    for n in ast.walk(expr):
        if not (isinstance(n, ast.Name) and n.id in params):
            continue
        p = parent.get(id(n))
        if isinstance(p, ast.BinOp) and isinstance(p.op, ast.Sub) and p.left is n:
            offsets.append(p.right)
            continue
        if isinstance(p, ast.Attribute) and p.attr in (_OFFSET_REDUCTIONS | _METADATA):
            continue
        if isinstance(p, ast.Subscript) and p.value is n and isinstance(parent.get(id(p)), ast.BinOp) and parent[id(p)].right is p:
            continue  # x1[..., :1, :] used as the offset
        if isinstance(p, ast.Call) and n in p.args and (chain(p.func) or "").split(".")[-1] in _DIST_HELPERS + ("equal",):
            continue
        if isinstance(p, ast.keyword) or isinstance(p, ast.Call) and (chain(p.func) or "").split(".")[-1] in ("ones_like", "zeros_like", "empty_like"):
            continue
        probs.append("`%s` enters `%s` without the common offset" % (n.id, src(p)[:70]))
    return probs, offsets


def _row_threshold(test: ast.AST, params) -> bool:
    """`x1.size(-2) > 25 or x2.size(-2) > 25` (any order, `shape[-2]` form as well, bound at most 25): true iff cdist may expand the square"""
    parts = test.values if isinstance(test, ast.BoolOp) and isinstance(test.op, ast.Or) else [test]
    seen = set()
    for p in parts:
        if not (isinstance(p, ast.Compare) and len(p.ops) == 1 and isinstance(p.ops[0], ast.Gt) and isinstance(p.comparators[0], ast.Constant) and isinstance(p.comparators[0].value, int) and p.comparators[0].value <= 25):
            return False
        t = src(p.left)
        for q in params:
            if t in ("%s.size(-2)" % q, "%s.shape[-2]" % q):
                seen.add(q)
    return seen == set(params)


def centred_distances(idx: ProgramIndex, rep: Report):
    from ..symbolic import inline, walk_paths
    rep.rule("C07-8", "the distance helpers subtract one common, data-derived offset from both inputs before torch.cdist / the quadratic "
                      "expansion: distances of inputs far from the origin (un-normalised data) do not lose their digits to cancellation, "
                      "which would make cross-covariances - and with them posterior covariances - indefinite")
    mi = idx.module("gpytorch.kernels.kernel")
    n = 0
    for name in _DIST_HELPERS:
        f = mi.functions.get(name)
        if f is None:
            raise AnalysisError("C07-8: gpytorch.kernels.kernel.%s not found" % name)
        params = set(f.params[:2])
        probs, seen, computes, exact_small = [], set(), 0, 0
        for path, seq in walk_paths(f):
            # torch.cdist takes exact differences unless one input has more than 25 rows (documented compute_mode default): a path
            # that assumed `x1.size(-2) > 25 or x2.size(-2) > 25` false may hand the inputs over as they are
            few_rows = any(getattr(st, "kind", None) == "assume" and not st.truth and _row_threshold(st.node, params) for st, env in seq)
            for st, env in seq:
                if not (isinstance(st, ast.Return) and st.value is not None):
                    continue
                r = inline(st.value, env)
                k = ast.dump(r) + ("|few" if few_rows else "")
                if k in seen:
                    continue
                seen.add(k)
                if few_rows and any(isinstance(c, ast.Call) and (chain(c.func) or "").split(".")[-1] == "cdist" for c in ast.walk(r)) \
                        and not any(isinstance(c, ast.Call) and (chain(c.func) or "").split(".")[-1] in ("matmul", "mm", "bmm", "einsum") or isinstance(c, ast.BinOp) and isinstance(c.op, ast.MatMult) for c in ast.walk(r)):
                    exact_small += 1
                    continue
                pr, offs = _raw_uses(r, params)
                probs += pr
                expands = any(isinstance(c, ast.Call) and (chain(c.func) or "").split(".")[-1] in ("cdist", "matmul", "mm", "bmm", "einsum") or isinstance(c, ast.BinOp) and isinstance(c.op, ast.MatMult) for c in ast.walk(r))
                if expands:
                    computes += 1
                    kinds = {ast.dump(o) for o in offs}
                    if not offs:
                        probs.append("a path computes the distance from the inputs as given (no offset is subtracted)")
                    elif len(kinds) > 1:
                        probs.append("the inputs are shifted by different offsets: %s" % " vs ".join(sorted({"`%s`" % src(o)[:40] for o in offs})))
                    elif not _is_offset(offs[0], params):
                        probs.append("the offset `%s` is not a reduction of an input over its rows" % src(offs[0])[:60])
        n += 1
        probs = sorted(set(probs))
        rep.add("C07-8", "%s:%s[common offset]" % (mi.name, name), f.where, not probs,
                "%d returned value(s) inlined, %d of them expand the distance: both inputs enter shifted by the same row-reduction of an input" % (len(seen), computes) if not probs else "; ".join(probs), {"returns": len(seen)})
    rep.floor("C07-8", "distance helpers", n, 2)


# ---- C07-9 ---------------------------------------------------------------------------------------------------------
def wendland_exponent(idx: ProgramIndex, rep: Report, rule: str = "C07-9"):
    """The compactly supported piecewise-polynomial covariance (1 - r)_+^(j+q) p_q(j, r) is positive definite on R^D only for
    j >= floor(D/2) + q + 1, D the dimension of the inputs (Wendland; Rasmussen & Williams 4.21).  The clause: in
    PiecewisePolynomialKernel.forward the exponent handed to the polynomial helpers is floor(D/2) + q + 1 with D read from the shape
    of an input tensor (a parameter of forward, or a local computed from one) - not from a parameter of the kernel, whose shape says
    nothing about the data unless ARD is on."""
    rep.rule(rule, "PiecewisePolynomialKernel: the exponent j is floor(D/2) + q + 1 with D a size of the input tensors (the j of the closed form, Rasmussen & Williams 4.21, and the condition under which the compactly supported polynomial is a valid covariance in D dimensions)")
    K = idx.find_class("PiecewisePolynomialKernel")
    fw = K.methods.get("forward")
    if fw is None:
        raise AnalysisError(rule + ": PiecewisePolynomialKernel.forward not found (anchor)")
    sn = fw.params[0]
    tensor_params = set(fw.params[1:3])
    assigns: Dict[str, List[ast.AST]] = {}
    for a in ast.walk(fw.node):
        if isinstance(a, ast.Assign) and len(a.targets) == 1 and isinstance(a.targets[0], ast.Name):
            assigns.setdefault(a.targets[0].id, []).append(a.value)

    def from_inputs(e: ast.AST, depth=0) -> bool:
        """e is an input tensor or a local computed from input tensors by a method call / arithmetic"""
        if isinstance(e, ast.Name):
            if e.id in tensor_params:
                return True
            return depth < 3 and e.id in assigns and all(from_inputs(d, depth + 1) for d in assigns[e.id])
        if isinstance(e, ast.Call) and isinstance(e.func, ast.Attribute):
            return from_inputs(e.func.value, depth)
        if isinstance(e, ast.BinOp):
            return from_inputs(e.left, depth) or from_inputs(e.right, depth)
        return False

    def is_input_size(e: ast.AST) -> bool:
        if isinstance(e, ast.Subscript) and isinstance(e.value, ast.Attribute) and e.value.attr == "shape":
            return from_inputs(e.value.value)
        if isinstance(e, ast.Call) and isinstance(e.func, ast.Attribute) and e.func.attr == "size" and e.args:
            return from_inputs(e.func.value)
        return False

    def terms(e: ast.AST) -> List[ast.AST]:
        if isinstance(e, ast.BinOp) and isinstance(e.op, ast.Add):
            return terms(e.left) + terms(e.right)
        return [e]

    def half_floor_of(e: ast.AST) -> Optional[ast.AST]:
        """floor(X / 2), int(X / 2), X // 2 -> X"""
        if isinstance(e, ast.Call) and (chain(e.func) or "").split(".")[-1] in ("floor", "int") and len(e.args) == 1:
            d = e.args[0]
            if isinstance(d, ast.BinOp) and isinstance(d.op, (ast.Div, ast.FloorDiv)) and isinstance(d.right, ast.Constant) and d.right.value == 2:
                return d.left
        if isinstance(e, ast.BinOp) and isinstance(e.op, ast.FloorDiv) and isinstance(e.right, ast.Constant) and e.right.value == 2:
            return e.left
        return None

    # the exponent: second argument of the polynomial helpers
    helper_calls = [c for c in calls_in(fw.node) if (chain(c.func) or "") in ("_fmax", "_get_cov") and len(c.args) >= 2]
    if not helper_calls:
        raise AnalysisError(rule + ": forward no longer calls _fmax / _get_cov with the exponent (anchor)")
    probs = []
    for c in helper_calls:
        j = c.args[1]
        defs = assigns.get(j.id, []) if isinstance(j, ast.Name) else [j]
        if not defs:
            probs.append("the exponent `%s` of %s has no definition in forward" % (src(j), chain(c.func)))
        for d in defs:
            ts = terms(d)
            halves = [half_floor_of(t) for t in ts if half_floor_of(t) is not None]
            consts = [t.value for t in ts if isinstance(t, ast.Constant) and isinstance(t.value, (int, float))]
            qs = [t for t in ts if (chain(t) or "") in ("%s.q" % sn, "q")]
            if len(halves) != 1 or sum(consts) != 1 or len(qs) != 1 or len(ts) != len(consts) + 2:
                probs.append("the exponent is `%s`, not floor(D/2) + q + 1" % src(d))
                continue
            D = halves[0]
            ddefs = assigns.get(D.id, []) if isinstance(D, ast.Name) else [D]
            bad = [x for x in ddefs if not is_input_size(x)]
            if not ddefs or bad:
                probs.append("D in the exponent floor(D/2) + q + 1 is `%s`: not a size of the input tensors - with the default (non-ARD) kernel that is 1 whatever the dimension of the data, and for j < floor(D/2) + q + 1 the compactly supported polynomial is not positive definite in D dimensions (indefinite Gram matrices)" % (src(bad[0]) if bad else src(D)))
    rep.add(rule, "%s:PiecewisePolynomialKernel.forward[exponent j]" % K.module.name, fw.where, not probs,
            "j = floor(D/2) + q + 1 with D a size of the inputs at all %d uses" % len(helper_calls) if not probs else "; ".join(sorted(set(probs))), {})
