"""C15 - variational objectives: assembly of the ELBO / PLL (structural clause).

_ApproximateMarginalLogLikelihood.forward must evaluate, in the affine-form domain on the path that takes both loops, to
    +1/B * LL  - beta/N * KL  + 1/N * sum(prior.log_prob(closure(module)))  - 1 * sum(added loss)
with B = approximate_dist_f.event_shape[0], N = self.num_data, beta = self.beta; the un-combined tuple carries the same terms;
VariationalELBO uses expected_log_prob and PredictiveLogLikelihood log_marginal, both summed over the last axis; NGD scales the
step by num_data.  Does not decide the bound or NGD optimality.  (DESIGN.md section 4, C15.)
"""
from __future__ import annotations

import ast
from fractions import Fraction
from typing import Dict, List, Optional

from ..domains.affine import Affine, AffineEval
from ..index import (AnalysisError, ClassInfo, FuncInfo, ProgramIndex, body_without_docstring, call_name, calls_in, chain, norm, src)
from ..report import Report
from .c02 import affine_paths, other_terms_classifier

N1 = (("N", -1),)


def run(idx: ProgramIndex, rep: Report, tier: str):
    rep.explanation = (
        "Affine-form abstract interpretation of _ApproximateMarginalLogLikelihood.forward on every returning path: sources LL "
        "(self._log_likelihood_term), KL (variational_strategy.kl_divergence()), PRIOR (prior.log_prob(closure(module)) inside the "
        "iteration over named_priors()), ADDED (added_loss_term.loss() inside the iteration over added_loss_terms()); symbols "
        "B = approximate_dist_f.event_shape[0], N = self.num_data, beta = self.beta. Required form: +LL/B - beta*KL/N + PRIOR/N - ADDED "
        "(combined) and the same four components in the tuple return. Subclasses: ELBO sums expected_log_prob over the last axis, "
        "PLL sums log_marginal. NGD.step adds -lr*num_data*grad. The bound itself and NGD optimality are not decided.")
    rep.rule("C15-1", "ELBO/PLL assembly: +LL/B - beta*KL/N + PRIOR/N - ADDED with the stated provenance of B, N, beta")
    rep.rule("C15-2", "subclasses take expected_log_prob (ELBO) / log_marginal (PLL) of the likelihood, summed over the data axis")
    rep.rule("C15-4", "no in-place aliasing hazard in the variational objective code (storage/version domain)")
    site_weights_aligned(idx, rep)
    weights_read_where_stored(idx, rep)
    rep.rule("C15-3", "NGD.step scales the natural-gradient step by num_data and the learning rate, with a minus sign")
    A = idx.find_class("_ApproximateMarginalLogLikelihood")
    fi = idx.method(A, "forward", own=True)
    dist = fi.params[1]
    base = other_terms_classifier("", "")

    def classify(e, aliases):
        t = src(e)
        if isinstance(e, ast.Call) and chain(e.func) == "self._log_likelihood_term":
            ok = len(e.args) >= 2 and src(e.args[0]) == dist and src(e.args[1]) == fi.params[2]
            return ("source", "LL" if ok else "LL_OF_WRONG_ARGUMENTS")
        if isinstance(e, ast.Call) and isinstance(e.func, ast.Attribute) and e.func.attr == "kl_divergence":
            return ("source", "KL")
        if isinstance(e, ast.Call) and chain(e.func) in ("torch.zeros_like", "torch.zeros"):
            return ("zero",)
        if t == "self.num_data":
            return ("symbol", "N")
        if t == "self.beta":
            return ("symbol", "beta")
        if t == "%s.event_shape[0]" % dist or t == "%s.event_shape.numel()" % dist:
            return ("symbol", "B")
        return base(e, aliases)

    res = affine_paths(fi, classify)
    want = {("LL", (("B", -1),)): Fraction(1), ("KL", (("N", -1), ("beta", 1))): Fraction(-1), ("PRIOR", N1): Fraction(1), ("ADDED", ()): Fraction(-1)}
    want_tuple = [{("LL", (("B", -1),)): Fraction(1)}, {("KL", (("N", -1), ("beta", 1))): Fraction(1)}, {("PRIOR", N1): Fraction(1)}, {("ADDED", ()): Fraction(1)}]
    full = [(c, r, ae) for c, r, ae in res if all(t for k, t in c if k.startswith("loop:"))]
    probs: List[str] = []
    n_comb = n_tup = 0
    for c, r, ae in full:
        if ae.unknown:
            probs.append(ae.unknown[0])
        if isinstance(r, Affine):
            n_comb += 1
            if r.terms != want:
                probs.append("combined objective is `%s`, expected +LL/B -beta*KL/N +PRIOR/N -ADDED" % r.show())
        elif isinstance(r, tuple):
            n_tup += 1
            for i, comp in enumerate(r):
                if not isinstance(comp, Affine) or comp.terms != want_tuple[i]:
                    probs.append("component %d of the un-combined objective is `%s`" % (i, comp.show() if isinstance(comp, Affine) else "non-affine"))
        else:
            probs.append("a path returns a non-affine value")
    if n_comb < 1 or n_tup < 1:
        probs.append("expected a combined and an un-combined return (found %d/%d)" % (n_comb, n_tup))
    rep.add("C15-1", "%s:_ApproximateMarginalLogLikelihood.forward" % A.module.name, fi.where, not probs,
            "+LL/B - beta*KL/N + PRIOR/N - ADDED on the combined return; (LL/B, beta*KL/N, PRIOR/N, ADDED) on the tuple return" if not probs else "; ".join(sorted(set(probs))), {"paths": len(res)})
    # the tuple without added losses must not silently drop a non-zero ADDED: guarded by had_added_losses
    zero_iter = [(c, r) for c, r, ae in res if isinstance(r, tuple) and len(r) == 3]
    ok3 = all(not any("added_loss_terms" in k and t for k, t in c if k.startswith("loop:")) for c, r in zero_iter)
    rep.add("C15-1", "%s:_ApproximateMarginalLogLikelihood.forward[3-tuple]" % A.module.name, fi.where, ok3, "the 3-tuple is returned only when no added loss term was iterated" if ok3 else "the 3-tuple (without added loss) can be returned although an added loss term exists", {})
    # C15-2
    n = 0
    for cname, meth in (("VariationalELBO", "expected_log_prob"), ("PredictiveLogLikelihood", "log_marginal")):
        C = idx.find_class(cname)
        f = idx.method(C, "_log_likelihood_term", own=True)
        n += 1
        rets = [r.value for r in ast.walk(f.node) if isinstance(r, ast.Return) and r.value is not None]
        ok = len(rets) == 1
        detail = ""
        if ok:
            r = rets[0]
            inner = r
            summed = False
            if isinstance(r, ast.Call) and isinstance(r.func, ast.Attribute) and r.func.attr == "sum" and [src(a) for a in r.args] == ["-1"]:
                summed = True
                inner = r.func.value
            ok = summed and isinstance(inner, ast.Call) and chain(inner.func) == "self.likelihood.%s" % meth and len(inner.args) >= 2 and src(inner.args[0]) == f.params[2] and src(inner.args[1]) == f.params[1]
            detail = src(r)
        rep.add("C15-2", "%s:%s._log_likelihood_term" % (C.module.name, cname), f.where, ok, "likelihood.%s(target, q(f)).sum(-1)" % meth if ok else "the likelihood term is `%s`, expected self.likelihood.%s(target, dist, ...).sum(-1)" % (detail, meth), {})
        # subclasses may not override forward with different algebra: forward delegates to super
        fw = C.methods.get("forward")
        if fw is not None:
            ok = all(isinstance(r.value, ast.Call) and isinstance(r.value.func, ast.Attribute) and r.value.func.attr == "forward" and src(r.value.func.value) == "super()" for r in ast.walk(fw.node) if isinstance(r, ast.Return))
            rep.add("C15-2", "%s:%s.forward" % (C.module.name, cname), fw.where, ok, "delegates to the shared assembly" if ok else "%s.forward no longer delegates to _ApproximateMarginalLogLikelihood.forward" % cname, {})
    # C15-3: the in-place update of every parameter is  p += (-1 * lr * num_data) * p.grad   (affine form on inlined expressions)
    from ..symbolic import inline, walk_paths
    G = idx.find_class("NGD")
    st = idx.method(G, "step", own=True)
    sn = st.params[0]
    updates = 0
    uprobs = []

    def classify_ngd(e, _aliases=None):
        if isinstance(e, ast.Attribute) and e.attr == "grad":
            return ("source", "GRAD")
        if isinstance(e, ast.Subscript) and isinstance(e.slice, ast.Constant) and e.slice.value == "lr":
            return ("symbol", "lr")
        if chain(e) == "%s.num_data" % sn:
            return ("symbol", "N")
        return None

    want = {("GRAD", (("N", 1), ("lr", 1))): Fraction(-1)}
    for path, seq in walk_paths(st):
        for stx, env in seq:
            if not isinstance(stx, ast.stmt):
                continue
            delta = None
            target = None
            if isinstance(stx, ast.Expr) and isinstance(stx.value, ast.Call) and isinstance(stx.value.func, ast.Attribute) and stx.value.func.attr in ("add_", "sub_") and stx.value.args:
                c = stx.value
                target = inline(c.func.value, env)
                arg = inline(c.args[0], env)
                alpha = [inline(k.value, env) for k in c.keywords if k.arg == "alpha"]
                e = ast.BinOp(left=arg, op=ast.Mult(), right=alpha[0]) if alpha else arg
                delta = ast.UnaryOp(op=ast.USub(), operand=e) if c.func.attr == "sub_" else e
            elif isinstance(stx, ast.AugAssign) and isinstance(stx.op, (ast.Add, ast.Sub)):
                target = inline(stx.target, env) if not isinstance(stx.target, ast.Name) else env.get(stx.target.id, stx.target)
                e = inline(stx.value, env)
                delta = ast.UnaryOp(op=ast.USub(), operand=e) if isinstance(stx.op, ast.Sub) else e
            if delta is None:
                continue
            # only updates of the optimised parameters (items of group["params"])
            if "params" not in src(target):
                continue
            updates += 1
            v = AffineEval(classify_ngd).ev(delta)
            if not (isinstance(v, Affine) and v.terms == want):
                uprobs.append("the step is `%s` = %s, expected -lr*num_data*grad" % (src(stx)[:60], v.show() if isinstance(v, Affine) else "unrecognised"))
            if not (isinstance(delta, ast.AST) and any(isinstance(x, ast.Attribute) and x.attr == "grad" and src(x.value) == src(target) for x in ast.walk(delta))):
                uprobs.append("the gradient in `%s` is not the gradient of the updated parameter" % src(stx)[:60])
    ok = updates >= 1 and not uprobs
    rep.add("C15-3", "%s:NGD.step" % G.module.name, st.where, ok, "p += -(lr * num_data) * p.grad" if ok else ("NGD.step: " + ("; ".join(sorted(set(uprobs))) or "no in-place update of the parameters found")), {})

    from .common_alias import aliasing_obligations
    funcs = []
    for cn in ("_ApproximateMarginalLogLikelihood", "VariationalELBO", "PredictiveLogLikelihood", "GammaRobustVariationalELBO", "NGD"):
        funcs += list(idx.find_class(cn).methods.values())
    aliasing_obligations(idx, rep, "C15-4", funcs, 6, "variational objective methods interpreted")
    rep.rule("C15-5", "the enumerators feeding the objective are total: every registered prior / added-loss term is yielded, with (module, prior, closure) of the same registration at the positions the objective unpacks")
    from .common_enum import enumeration_obligations
    enumeration_obligations(idx, rep, "C15-5", [fi], floor=9)
    rep.rule("C15-6", "the natural-gradient machinery (natural / tril-natural variational distributions) addresses matrix axes from the right: one NGD step reaches the optimum for batched q(u) as well")
    from .c19 import axis_addressing
    ng = [c for c in idx.package_classes() if c.module.name in (idx.package + ".variational.natural_variational_distribution", idx.package + ".variational.tril_natural_variational_distribution")]
    axis_addressing(idx, rep, ng, rule="C15-6", floor=6)
    weights_not_divisors(idx, rep)


# ---- C15-7 ---------------------------------------------------------------------------------------------------------
def weights_not_divisors(idx: ProgramIndex, rep: Report):
    """'(beta / N) KL' is defined for every beta >= 0, beta = 0 being the usual start of a KL warm-up schedule.  A user-supplied weight
    (constructor argument with a numeric default, stored on self) that appears in a *denominator* makes the objective undefined at 0:
    `kl.div(num_data / beta)` raises ZeroDivisionError where `kl * (beta / num_data)` is 0.  Allowed when the constructor rejects the
    values at which the denominator vanishes (`if gamma <= 1.0: raise`)."""
    rep.rule("C15-7", "user-supplied weights of the objectives (constructor arguments with a numeric default) are factors, not divisors - unless the constructor rejects the values at which the divisor vanishes")
    base = idx.find_class("MarginalLogLikelihood")
    n = 0
    seen_sites = set()
    for cls in sorted([base] + list(idx.subclasses(base)), key=lambda c: c.qualname):
        init = cls.methods.get("__init__")
        if init is None:
            continue
        a = init.node.args
        defaults = dict(zip([x.arg for x in a.args[len(a.args) - len(a.defaults):]], a.defaults))
        weights = {p for p, d in defaults.items() if isinstance(d, ast.Constant) and isinstance(d.value, (int, float)) and not isinstance(d.value, bool)
                   and any(isinstance(s_, ast.Assign) and any(isinstance(t, ast.Attribute) and t.attr == p and chain(t.value) == "self" for t in s_.targets) for s_ in ast.walk(init.node))}
        for w in sorted(weights):
            validated = any(isinstance(x, ast.If) and any(isinstance(y, ast.Name) and y.id == w for y in ast.walk(x.test)) and any(isinstance(z, ast.Raise) for b_ in x.body for z in ast.walk(b_)) for x in ast.walk(init.node))
            for k in [cls] + list(idx.subclasses(cls)):
                for mname, m in sorted(k.methods.items()):
                    for x in ast.walk(m.node):
                        den = None
                        if isinstance(x, ast.BinOp) and isinstance(x.op, (ast.Div, ast.FloorDiv)):
                            den = x.right
                        elif isinstance(x, ast.Call) and isinstance(x.func, ast.Attribute) and x.func.attr in ("div", "div_", "true_divide") and x.args:
                            den = x.args[0]
                        if den is None:
                            continue
                        # the weight in the denominator of the denominator is a factor again: (a / (b / w)) - only direct occurrences count,
                        # and a nested division by the weight inside the divisor is a division by the weight
                        def in_den(e, depth=0):
                            if isinstance(e, ast.Attribute) and e.attr == w and chain(e.value) == "self":
                                return True
                            if isinstance(e, ast.BinOp) and isinstance(e.op, (ast.Mult,)):
                                return in_den(e.left, depth) or in_den(e.right, depth)
                            if isinstance(e, ast.BinOp) and isinstance(e.op, (ast.Div,)):
                                return in_den(e.left, depth)  # w / c : still vanishes with w -> the outer division is by zero
                            return False
                        direct = in_den(den)
                        nested = isinstance(den, ast.BinOp) and isinstance(den.op, ast.Div) and any(isinstance(y, ast.Attribute) and y.attr == w and chain(y.value) == "self" for y in ast.walk(den.right))
                        if not (direct or nested):
                            continue
                        key_ = (m.module.relpath, x.lineno, x.col_offset, w)
                        if key_ in seen_sites or any((m.module.relpath, x.lineno, w) == (a_, b_, d_) for a_, b_, _c, d_ in seen_sites):
                            continue
                        seen_sites.add(key_)
                        n += 1
                        ok = validated
                        rep.add("C15-7", "%s:%s.%s[/ self.%s]" % (k.module.name, k.qualname, mname, w), "%s:%d" % (m.module.relpath, x.lineno), ok,
                                "the constructor rejects the values of `%s` at which the divisor vanishes" % w if ok else
                                "`%s` divides by the user-supplied weight `%s` (default %s): the objective is undefined (ZeroDivisionError) at %s = 0, a value the definition (beta / N) KL covers and KL warm-up schedules start from" % (" ".join(src(x).split())[:60], w, src(defaults[w]), w), {})
    rep.floor("C15-7", "divisions by user-supplied weights", n, 1)


# ---- C15-8 ---------------------------------------------------------------------------------------------------------
def site_weights_aligned(idx: ProgramIndex, rep: Report):
    """DSPP objectives weight the quadrature sites, which live on the LEADING dimension of log_marginal (q x [batch] x n).  A weight vector of
    shape (q,) broadcasts from the right, so it has to be given as many trailing singleton axes as the term has further dimensions - a number
    that depends on the batch rank of the data.  A fixed `unsqueeze(-1)` aligns the sites with the data axis for un-batched data only."""
    rep.rule("C15-8", "the per-site quadrature weights of the deep objectives are aligned with the leading dimension of the term they weight for every batch rank (trailing singleton axes counted on that term, not a constant)")
    n = 0
    for cls in sorted(idx.package_classes(), key=lambda c: c.qualname):
        for name, m in sorted(cls.methods.items()):
            for x in ast.walk(m.node):
                if not (isinstance(x, ast.BinOp) and isinstance(x.op, (ast.Add, ast.Mult))):
                    continue
                for w, other in ((x.left, x.right), (x.right, x.left)):
                    if "quad_weights" not in src(w):
                        continue
                    n += 1
                    # resolve a local name
                    wexpr = w
                    if isinstance(w, ast.Name):
                        vs = [a.value for a in ast.walk(m.node) if isinstance(a, ast.Assign) and any(isinstance(t, ast.Name) and t.id == w.id for t in a.targets)]
                        wexpr = vs[0] if vs else w
                    fixed = isinstance(wexpr, ast.Call) and isinstance(wexpr.func, ast.Attribute) and wexpr.func.attr == "unsqueeze"
                    counted = any(isinstance(c, ast.Call) and isinstance(c.func, ast.Attribute) and c.func.attr in ("dim", "ndimension") for c in ast.walk(wexpr)) or "ndim" in src(wexpr) or "_pad_with_singletons" in src(wexpr)
                    ok = counted and not (fixed and not counted)
                    rep.add("C15-8", "%s:%s.%s[quadrature weights]" % (cls.module.name, cls.qualname, name), "%s:%d" % (m.module.relpath, x.lineno), ok,
                            "the weights get as many trailing singleton axes as the weighted term has further dimensions" if ok else
                            "`%s` gives the (q,) weights a fixed number of trailing axes: with data of batch shape (b,) the log marginals are q x b x n and the weights line up with the batch dimension - an error, or for b = q silently wrong values ([-2.64, -0.53, -3.34] instead of [-1.98, -1.36, -1.68])" % " ".join(src(wexpr).split())[:60], {})
    rep.floor("C15-8", "uses of the quadrature-site weights in objectives", n, 1)


# ---- C15-9 ---------------------------------------------------------------------------------------------------------
def weights_read_where_stored(idx: ProgramIndex, rep: Report):
    """beta and num_data are plain attributes of the objective, read at every evaluation (KL warm-up schedules assign `mll.beta = ...`
    between steps).  An objective class that stores its own copies (through the base constructor) but evaluates by delegating to another
    objective's forward never reads them: assignments to the wrapper are accepted and ignored."""
    rep.rule("C15-9", "an objective that stores beta / num_data evaluates with the values it stores: a wrapper that delegates forward to another objective does not keep copies of its own")
    A = idx.cls("gpytorch.mlls._approximate_mll", "_ApproximateMarginalLogLikelihood")
    n = 0
    for cls in sorted(idx.subclasses(A), key=lambda c: c.qualname):
        fw = cls.methods.get("forward")
        if fw is None or cls is A:
            continue
        n += 1
        sn = fw.params[0]
        delegates = [c for c in calls_in(fw.node) if isinstance(c.func, ast.Attribute) and c.func.attr == "forward" and isinstance(c.func.value, ast.Attribute) and isinstance(c.func.value.value, ast.Name) and c.func.value.value.id == sn]
        uses_super = any(isinstance(c.func, ast.Attribute) and c.func.attr == "forward" and isinstance(c.func.value, ast.Call) and chain(c.func.value.func) == "super" for c in calls_in(fw.node))
        reads_own = any(isinstance(x, ast.Attribute) and x.attr in ("beta", "num_data") and isinstance(x.value, ast.Name) and x.value.id == sn for x in ast.walk(fw.node))
        init = cls.methods.get("__init__")
        stores_copies = init is not None and any(isinstance(c.func, ast.Attribute) and c.func.attr == "__init__" and any(k.arg in ("beta", "num_data") for k in c.keywords) for c in calls_in(init.node))
        forwards_attrs = any(m in cls.methods for m in ("beta", "num_data")) or any(isinstance(d, ast.FunctionDef) and d.name in ("__getattr__", "__setattr__") for d in cls.node.body)
        ok = not (delegates and stores_copies and not uses_super and not reads_own and not forwards_attrs)
        rep.add("C15-9", "%s:%s.forward[weights]" % (cls.module.name, cls.qualname), fw.where, ok,
                "evaluates with the weights it stores" if ok else
                "forward delegates to `%s` while the constructor stores copies of beta / num_data on the wrapper: `mll.beta = 0.1` or `mll.num_data = 500` after construction is accepted and ignored (objective stays -1.8415 where the definition gives -1.6884)" % src(delegates[0].func), {})
    rep.floor("C15-9", "objectives overriding forward", n, 1)
