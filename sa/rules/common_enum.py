"""Shared rule: the enumerators that feed the objectives are total (C02-5, C15-5).

"the log prior density of every parameter that has a registered prior ... + every registered added loss term" needs, before any
number is computed, that Module.named_priors() / Module.added_loss_terms() hand every registration to the objective:

  (a) the enumerator walks the registration dict (`X._priors.items()` / `X._added_loss_terms.items()`) and every iteration of
      that loop yields, unless a frozen skip reason holds (the registration holds None; for added-loss terms also: the same term
      object was already yielded);
  (b) the yielded tuple carries, at the positions the objective unpacks as (module, prior, closure), the object whose dict is
      walked and the prior / closure of *that* entry, in the order register_prior stores them;
  (c) the recursion visits every `named_children()` member and re-yields every item of the recursive call unconditionally;
  (d) the public method delegates to that enumerator starting at `self`.
The rule looks at path conditions and tuple positions, never at text, so renamings and reformatting are silent.
"""
from __future__ import annotations

import ast
from typing import Dict, List, Optional, Sequence, Tuple

from ..cfg import enumerate_paths
from ..index import AnalysisError, FuncInfo, ProgramIndex, body_without_docstring, chain, src, walk_no_nested
from ..report import Report


def _gp_module(idx: ProgramIndex):
    mi = idx.module(idx.package + ".module")
    if "Module" not in mi.classes:
        raise AnalysisError("anchor vanished: gpytorch.module.Module")
    return mi.classes["Module"]


def _is_none_test(e: ast.AST, name: str) -> Optional[bool]:
    """`name is not None` -> True (holds when registered), `name is None` -> False; None when e is something else"""
    if isinstance(e, ast.Compare) and len(e.ops) == 1 and isinstance(e.left, ast.Name) and e.left.id == name \
            and isinstance(e.comparators[0], ast.Constant) and e.comparators[0].value is None:
        if isinstance(e.ops[0], ast.IsNot):
            return True
        if isinstance(e.ops[0], ast.Is):
            return False
    return None


def _in_memo_test(e: ast.AST, name: str) -> Optional[bool]:
    """`name not in <memo>` -> True (holds when not yet seen), `name in <memo>` -> False"""
    if isinstance(e, ast.Compare) and len(e.ops) == 1 and isinstance(e.left, ast.Name) and e.left.id == name and isinstance(e.comparators[0], ast.Name):
        if isinstance(e.ops[0], ast.NotIn):
            return True
        if isinstance(e.ops[0], ast.In):
            return False
    return None


def _justifies(e: ast.AST, truth: bool, item: str, allow_memo: bool) -> bool:
    """does `e == truth` imply a frozen skip reason (the entry is None / the term object was already yielded)?"""
    if isinstance(e, ast.UnaryOp) and isinstance(e.op, ast.Not):
        return _justifies(e.operand, not truth, item, allow_memo)
    if isinstance(e, ast.BoolOp):
        sub = [_justifies(v, truth, item, allow_memo) for v in e.values]
        forced = (isinstance(e.op, ast.And) and truth) or (isinstance(e.op, ast.Or) and not truth)
        return any(sub) if forced else all(sub)  # forced: every operand has that truth value; otherwise: some operand has it
    n = _is_none_test(e, item)
    if n is not None:
        return n != truth
    if allow_memo:
        m = _in_memo_test(e, item)
        if m is not None:
            return m != truth
    return False


def _skip_justified(conds: Sequence[Tuple[ast.AST, bool]], item: str, allow_memo: bool) -> bool:
    return any(_justifies(e, t, item, allow_memo) for e, t in conds)


def _loop_over(fi: FuncInfo, attr: str) -> Optional[ast.For]:
    for n in walk_no_nested(fi.node):
        if isinstance(n, ast.For) and isinstance(n.iter, ast.Call) and isinstance(n.iter.func, ast.Attribute) and n.iter.func.attr == "items" \
                and isinstance(n.iter.func.value, ast.Attribute) and n.iter.func.value.attr == attr:
            return n
    return None


def _yields(node: ast.AST) -> List[ast.Yield]:
    return [n for n in ast.walk(node) if isinstance(n, ast.Yield)]


def _resolve_enumerator(idx: ProgramIndex, method: FuncInfo) -> Tuple[Optional[FuncInfo], Optional[ast.Call]]:
    """public method -> module-level generator it returns / iterates"""
    for n in walk_no_nested(method.node):
        if isinstance(n, ast.Call) and isinstance(n.func, ast.Name):
            f = method.module.functions.get(n.func.id) if hasattr(method.module, "functions") else None
            if f is not None and _yields(f.node):
                return f, n
    return None, None


def _paths_of_iteration(loop: ast.For):
    return enumerate_paths(loop.body)


def enumerator_total(idx: ProgramIndex, rep: Report, rule: str, cls_name: str, method_name: str, dict_attr: str, allow_memo: bool,
                     roles: Optional[Dict[str, int]] = None) -> Optional[Dict[str, int]]:
    """Checks (a)-(d) for one enumerator.  `roles` (for priors) maps role -> position in the stored registration tuple.
    Returns role -> position in the yielded tuple (None on failure)."""
    M = _gp_module(idx) if cls_name == "Module" else idx.find_class(cls_name)
    meth = M.lookup(method_name)
    if meth is None:
        raise AnalysisError("anchor vanished: %s.%s" % (cls_name, method_name))
    enum, call = _resolve_enumerator(idx, meth)
    inst = "%s:%s.%s" % (M.module.name, cls_name, method_name)
    if enum is None:
        rep.add(rule, inst, meth.where, False, "does not delegate to a module-level generator over the registrations", {})
        return None
    # (d) starts at self
    first = enum.params[0] if enum.params else None
    start = None
    for k in call.keywords:
        if k.arg == first:
            start = k.value
    if start is None and call.args:
        start = call.args[0]
    ok_d = isinstance(start, ast.Name) and start.id == "self"
    rep.add(rule, inst + "[start]", meth.where, ok_d, "enumeration starts at self" if ok_d else "enumeration starts at `%s`, not at the module itself" % (src(start) if start is not None else "?"), {})

    einst = "%s:%s" % (enum.module.name, enum.name)
    loop = _loop_over(enum, dict_attr)
    if loop is None:
        rep.add(rule, einst + "[registrations]", enum.where, False, "no loop over `.%s.items()`" % dict_attr, {})
        return None
    walked = loop.iter.func.value.value  # X in X._priors.items()
    # the item: name, value   or   name, (prior, closure, inv)
    tgt = loop.target
    if not (isinstance(tgt, ast.Tuple) and len(tgt.elts) == 2):
        raise AnalysisError("%s: unknown form of the loop target `%s`" % (einst, src(tgt)))
    val = tgt.elts[1]
    role_names: Dict[str, str] = {}
    if roles is None:
        if not isinstance(val, ast.Name):
            raise AnalysisError("%s: unknown form of the loop target `%s`" % (einst, src(tgt)))
        role_names["term"] = val.id
        item = val.id
    else:
        if not (isinstance(val, ast.Tuple) and all(isinstance(x, ast.Name) for x in val.elts)):
            raise AnalysisError("%s: unknown form of the loop target `%s`" % (einst, src(tgt)))
        for r, pos in roles.items():
            if pos >= len(val.elts):
                rep.add(rule, einst + "[unpack]", enum.where, False, "registration tuple unpacked with %d fields, register_prior stores %s at position %d" % (len(val.elts), r, pos), {})
                return None
            role_names[r] = val.elts[pos].id
        item = role_names["prior"]
    # (a) every iteration yields unless a frozen skip reason holds
    probs: List[str] = []
    npaths = nyield = 0
    yielded: List[ast.AST] = []
    for p in _paths_of_iteration(loop):
        npaths += 1
        ys = [y for s in p.steps if s.kind == "stmt" for y in _yields(s.node)]
        conds = [(s.node, s.truth) for s in p.steps if s.kind == "assume"]
        inner_loops = [s for s in p.steps if s.kind == "loop"]
        if ys and not inner_loops:
            nyield += 1
            yielded += ys
            continue
        if ys and inner_loops:
            probs.append("the yield sits in an inner loop that may run zero times (`%s`)" % src(inner_loops[0].node)[:50])
            continue
        if not _skip_justified(conds, item, allow_memo):
            probs.append("a registration is skipped when %s" % (" and ".join("%s is %s" % (" ".join(src(e).split()), t) for e, t in conds) or "always"))
    # guards around the loop itself
    outer = _guards_around(enum, loop)
    for g in outer:
        if not (isinstance(g, ast.Call) and chain(g.func) in ("isinstance", "hasattr") and g.args and src(g.args[0]) == src(walked)):
            probs.append("the walk over the registrations is itself conditional on `%s`" % src(g)[:60])
    ok_a = not probs and nyield >= 1
    rep.add(rule, einst + "[every registration is yielded]", enum.where, ok_a,
            "%d path(s) through one iteration: each yields or skips because %s" % (npaths, "the entry is None" + (" / the term object was already yielded" if allow_memo else ""))
            if ok_a else "; ".join(sorted(set(probs))) or "no yielding path", {"paths": npaths})
    # (b) positions in the yielded tuple
    out_pos: Dict[str, int] = {}
    okb, whyb = True, []
    for y in yielded:
        v = y.value
        elts = v.elts if isinstance(v, ast.Tuple) else [v]
        here: Dict[str, int] = {}
        for i, e in enumerate(elts):
            for r, nm in role_names.items():
                if isinstance(e, ast.Name) and e.id == nm:
                    here.setdefault(r, i)
            if roles is not None and src(e) == src(walked):
                here.setdefault("module", i)
        need = set(role_names) | ({"module"} if roles is not None else set())
        if set(here) != need:
            okb = False
            whyb.append("`yield %s` does not carry %s of the walked entry" % (src(v)[:60], ", ".join(sorted(need - set(here)))))
        elif out_pos and out_pos != here:
            okb = False
            whyb.append("yields disagree on tuple positions")
        else:
            out_pos = here
    rep.add(rule, einst + "[yielded tuple]", enum.where, okb and bool(out_pos), "positions %s" % sorted(out_pos.items()) if okb else "; ".join(whyb), {})
    # (c) recursion over named_children
    rec_probs = _recursion(enum, first)
    # (e) nothing but a memo test may end the walk of a module before its children are visited: an early `return` on the module's type
    #     (`if not isinstance(module, Module): return`) skips every registration below plain torch containers (ModuleList of kernels)
    for st in body_without_docstring(enum.node):
        if isinstance(st, ast.For):
            break
        if isinstance(st, ast.If) and any(isinstance(x, ast.Return) for b_ in st.body for x in ast.walk(b_)):
            parts = st.test.values if isinstance(st.test, ast.BoolOp) and isinstance(st.test.op, ast.Or) else [st.test]
            for t_ in parts:
                is_memo = isinstance(t_, ast.Compare) and len(t_.ops) == 1 and isinstance(t_.ops[0], ast.In) and isinstance(t_.comparators[0], ast.Name) and ("memo" in t_.comparators[0].id or "seen" in t_.comparators[0].id or "visited" in t_.comparators[0].id)
                if not is_memo:
                    rec_probs.append("the walk of a module ends early when `%s`: the children of such a module (kernels inside a torch ModuleList) are never visited" % " ".join(src(t_).split())[:60])
    rep.add(rule, einst + "[recursion]", enum.where, not rec_probs, "every named_children() member is visited and every item of the recursive call is re-yielded unchanged" if not rec_probs else "; ".join(rec_probs), {})
    return out_pos if okb else None


def _guards_around(fi: FuncInfo, target: ast.AST) -> List[ast.AST]:
    """tests of the If statements enclosing `target` (body branch) inside fi; else-branch enclosure is reported as Not(test)"""
    out: List[ast.AST] = []

    def rec(stmts, acc) -> bool:
        for st in stmts:
            if st is target:
                out.extend(acc)
                return True
            if isinstance(st, ast.If):
                if rec(st.body, acc + [st.test]):
                    return True
                if rec(st.orelse, acc + [ast.UnaryOp(op=ast.Not(), operand=st.test)]):
                    return True
            elif isinstance(st, (ast.For, ast.While, ast.With, ast.Try)):
                for fld in ("body", "orelse", "finalbody"):
                    if rec(getattr(st, fld, []) or [], acc + ([st.iter] if isinstance(st, ast.For) and fld == "body" and False else [])):
                        return True
                for h in getattr(st, "handlers", []) or []:
                    if rec(h.body, acc):
                        return True
        return False

    rec(body_without_docstring(fi.node), [])
    return out


def _recursion(enum: FuncInfo, first_param: Optional[str]) -> List[str]:
    probs: List[str] = []
    outer = None
    for n in walk_no_nested(enum.node):
        if isinstance(n, ast.For) and isinstance(n.iter, ast.Call) and isinstance(n.iter.func, ast.Attribute) and n.iter.func.attr == "named_children" \
                and isinstance(n.iter.func.value, ast.Name) and n.iter.func.value.id == first_param:
            outer = n
    if outer is None:
        return ["no loop over `%s.named_children()`" % first_param]
    if _guards_around(enum, outer):
        probs.append("the recursion into children is conditional on `%s`" % src(_guards_around(enum, outer)[0])[:50])
    if not (isinstance(outer.target, ast.Tuple) and len(outer.target.elts) == 2 and isinstance(outer.target.elts[1], ast.Name)):
        return probs + ["unknown form of the named_children() loop target"]
    child = outer.target.elts[1].id
    found = False
    for p in enumerate_paths(outer.body):
        rec_loops = [s for s in p.steps if s.kind == "loop" and isinstance(s.node, ast.Call) and isinstance(s.node.func, ast.Name) and s.node.func.id == enum.name]
        yfrom = [n for s in p.steps if s.kind == "stmt" for n in ast.walk(s.node) if isinstance(n, ast.YieldFrom) and isinstance(n.value, ast.Call) and isinstance(n.value.func, ast.Name) and n.value.func.id == enum.name]
        conds = [s for s in p.steps if s.kind == "assume"]
        if yfrom:
            call = yfrom[0].value
            if conds:
                probs.append("children are visited only when `%s`" % src(conds[0].node)[:50])
        elif rec_loops and rec_loops[0].truth:
            call = rec_loops[0].node
            # the one-iteration path: must yield exactly the loop target, unguarded
            i = p.steps.index(rec_loops[0])
            bind = p.steps[i + 1].node  # synthetic assign of the loop target
            tgt = bind.targets[0]
            after = p.steps[i + 2:]
            ys = [y for s in after if s.kind == "stmt" for y in _yields(s.node)]
            cs = [s for s in p.steps if s.kind == "assume"]
            if cs:
                probs.append("an item of the recursive call is dropped or children skipped when `%s` is %s" % (src(cs[0].node)[:50], cs[0].truth))
            elif not ys:
                probs.append("items of the recursive call are not re-yielded")
            else:
                a = [src(e) for e in (tgt.elts if isinstance(tgt, ast.Tuple) else [tgt])]
                v = ys[0].value
                b = [src(e) for e in (v.elts if isinstance(v, ast.Tuple) else [v])]
                if a != b:
                    probs.append("items of the recursive call are re-yielded as `%s`, not as received `%s`" % (", ".join(b), ", ".join(a)))
        else:
            if not rec_loops and not any(isinstance(n, ast.Call) and isinstance(n.func, ast.Name) and n.func.id == enum.name for s in p.steps for n in ast.walk(s.node)):
                probs.append("a path through the children loop does not recurse (%s)" % (" and ".join("%s is %s" % (src(c.node)[:40], c.truth) for c in conds) or "unconditionally"))
            continue
        found = True
        mod_arg = None
        for k in call.keywords:
            if k.arg == first_param:
                mod_arg = k.value
        if mod_arg is None and call.args:
            mod_arg = call.args[0]
        if not (isinstance(mod_arg, ast.Name) and mod_arg.id == child):
            probs.append("the recursive call visits `%s`, not the child `%s`" % (src(mod_arg) if mod_arg is not None else "?", child))
    if not found:
        probs.append("no recursive call for the children")
    return sorted(set(probs))


def registration_tuple_roles(idx: ProgramIndex) -> Dict[str, int]:
    """positions of (prior, closure) in the tuple Module.register_prior stores into self._priors[name]"""
    M = _gp_module(idx)
    rp = M.lookup("register_prior")
    if rp is None:
        raise AnalysisError("anchor vanished: Module.register_prior")
    for n in walk_no_nested(rp.node):
        if isinstance(n, ast.Assign) and len(n.targets) == 1 and isinstance(n.targets[0], ast.Subscript) and chain(n.targets[0].value) == "self._priors" and isinstance(n.value, ast.Tuple):
            names = [e.id if isinstance(e, ast.Name) else None for e in n.value.elts]
            pr = rp.params  # (self, name, prior, param_or_closure, setting_closure)
            if len(pr) >= 5 and len(names) == 3 and pr[2] in names and pr[4] in names:
                rest = [i for i in range(3) if i not in (names.index(pr[2]), names.index(pr[4]))]
                if len(rest) == 1:
                    return {"prior": names.index(pr[2]), "closure": rest[0], "setting": names.index(pr[4])}
    raise AnalysisError("Module.register_prior: the stored registration tuple was not recognised")


def consumer_positions(fi: FuncInfo, enum_call_attr: str) -> List[Tuple[ast.For, List[Optional[str]]]]:
    out = []
    for n in walk_no_nested(fi.node):
        if isinstance(n, ast.For) and isinstance(n.iter, ast.Call) and isinstance(n.iter.func, ast.Attribute) and n.iter.func.attr == enum_call_attr:
            t = n.target
            out.append((n, [e.id if isinstance(e, ast.Name) else None for e in (t.elts if isinstance(t, ast.Tuple) else [t])]))
    return out


def prior_consumer_agrees(rep: Report, rule: str, fi: FuncInfo, pos: Dict[str, int]):
    """in `for <tuple> in X.named_priors(): ... prior.log_prob(closure(module))` the names used are the ones at the positions the
    enumerator yields prior / closure / module at"""
    loops = consumer_positions(fi, "named_priors")
    inst = "%s[named_priors consumer]" % fi.qualname
    if not loops:
        rep.add(rule, inst, fi.where, False, "no loop over named_priors()", {})
        return
    for loop, names in loops:
        probs = []
        lp = [c for c in ast.walk(loop) if isinstance(c, ast.Call) and isinstance(c.func, ast.Attribute) and c.func.attr == "log_prob"]
        if not lp:
            probs.append("no log_prob call in the loop")
        for c in lp:
            want_prior = names[pos["prior"]] if pos["prior"] < len(names) else None
            want_clo = names[pos["closure"]] if pos["closure"] < len(names) else None
            want_mod = names[pos["module"]] if pos["module"] < len(names) else None
            got_prior = c.func.value.id if isinstance(c.func.value, ast.Name) else src(c.func.value)
            arg = c.args[0] if c.args else None
            got_clo = arg.func.id if isinstance(arg, ast.Call) and isinstance(arg.func, ast.Name) else None
            got_mod = arg.args[0].id if isinstance(arg, ast.Call) and arg.args and isinstance(arg.args[0], ast.Name) else None
            if (got_prior, got_clo, got_mod) != (want_prior, want_clo, want_mod):
                probs.append("`%s` uses (%s, %s, %s) but the enumerator yields prior/closure/module as (%s, %s, %s)" % (src(c)[:50], got_prior, got_clo, got_mod, want_prior, want_clo, want_mod))
        rep.add(rule, inst, fi.where, not probs, "prior.log_prob(closure(module)) unpacks the positions the enumerator yields" if not probs else "; ".join(probs), {})


def _added_loss_wrapper(idx: ProgramIndex, rep: Report, rule: str, term_pos: Optional[Dict[str, int]]):
    """Module.added_loss_terms(): yields the term of every item of self.named_added_loss_terms(), unconditionally"""
    M = _gp_module(idx)
    fi = M.lookup("added_loss_terms")
    if fi is None:
        raise AnalysisError("anchor vanished: Module.added_loss_terms")
    inst = "%s:Module.added_loss_terms" % M.module.name
    probs = []
    loops = [n for n in walk_no_nested(fi.node) if isinstance(n, ast.For) and isinstance(n.iter, ast.Call) and chain(n.iter.func) == "self.named_added_loss_terms"]
    if len(loops) != 1:
        probs.append("does not iterate self.named_added_loss_terms()")
    else:
        lp = loops[0]
        if _guards_around(fi, lp):
            probs.append("the iteration is conditional")
        names = [e.id if isinstance(e, ast.Name) else None for e in (lp.target.elts if isinstance(lp.target, ast.Tuple) else [lp.target])]
        for p in enumerate_paths(lp.body):
            ys = [y for s in p.steps if s.kind == "stmt" for y in _yields(s.node)]
            cs = [s for s in p.steps if s.kind == "assume"]
            if not ys:
                probs.append("a term is dropped when `%s` is %s" % (src(cs[0].node)[:50], cs[0].truth) if cs else "terms are not yielded")
            elif term_pos is not None:
                want = names[term_pos["term"]] if term_pos["term"] < len(names) else None
                if not (isinstance(ys[0].value, ast.Name) and ys[0].value.id == want):
                    probs.append("yields `%s`, the term is `%s` (position %d of the enumerator's tuple)" % (src(ys[0].value), want, term_pos["term"]))
    rep.add(rule, inst, fi.where, not probs, "yields the term of every (name, term) pair" if not probs else "; ".join(sorted(set(probs))), {})


def enumeration_obligations(idx: ProgramIndex, rep: Report, rule: str, prior_consumers: Sequence[FuncInfo], floor: int = 9):
    roles = registration_tuple_roles(idx)
    pos = enumerator_total(idx, rep, rule, "Module", "named_priors", "_priors", allow_memo=False, roles=roles)
    tpos = enumerator_total(idx, rep, rule, "Module", "named_added_loss_terms", "_added_loss_terms", allow_memo=True, roles=None)
    _added_loss_wrapper(idx, rep, rule, tpos)
    if pos is not None:
        for fi in prior_consumers:
            prior_consumer_agrees(rep, rule, fi, pos)
    rep.floor(rule, "enumerator obligations", len([o for o in rep.obligations if o.rule == rule]), floor)
