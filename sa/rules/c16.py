"""C16 - missing observations (NaN policy) behave as if those observations were deleted (structural clauses).

C16-1  exhaustiveness: every consumer of observation_nan_policy decides all three policies (or raises for the unsupported one)
C16-2  same-mask consistency in every `mask` branch: mean, every train-indexed covariance axis, targets (and noise) are indexed
       with masks derived from one `_get_observed` result
C16-3  the mean cache is keyed by the policy
C16-4  every prediction-strategy override of the mean path handles or rejects the policy
C16-5  the marginal log likelihood is rescaled by the size of the *masked* marginal
C16-6  every implementation of the posterior covariance consumes the policy (it must drop the unobserved training points)
Does not decide equality with data deletion numerically.  (DESIGN.md section 4, C16.)
"""
from __future__ import annotations

import ast
from typing import Dict, List, Optional, Set, Tuple

from ..callgraph import reachable_self_functions
from ..index import (AnalysisError, ClassInfo, FuncInfo, ProgramIndex, body_without_docstring, call_name, calls_in, chain,
                     const_str, is_super_call, norm, src, walk_no_nested)
from ..report import Report

POLICIES = ("ignore", "mask", "fill")


def reads_policy(fi: FuncInfo) -> List[ast.Call]:
    return [c for c in calls_in(fi.node) if isinstance(c.func, ast.Attribute) and c.func.attr == "value" and (chain(c.func.value) or "").endswith("observation_nan_policy")]


def policy_names(fi: FuncInfo) -> Set[str]:
    """locals / parameters that hold the policy string"""
    names = set()
    for n in ast.walk(fi.node):
        if isinstance(n, ast.Assign) and len(n.targets) == 1 and isinstance(n.targets[0], ast.Name) and n.value in reads_policy(fi):
            names.add(n.targets[0].id)
    for p in fi.params:
        if "nan_policy" in p:
            names.add(p)
    return names


def _compared_policy(test: ast.AST, names: Set[str]) -> Optional[str]:
    if isinstance(test, ast.Compare) and len(test.ops) == 1 and isinstance(test.ops[0], ast.Eq):
        l, r = test.left, test.comparators[0]
        for a, b in ((l, r), (r, l)):
            if isinstance(b, ast.Constant) and isinstance(b.value, str):
                if (isinstance(a, ast.Name) and a.id in names) or (isinstance(a, ast.Call) and isinstance(a.func, ast.Attribute) and a.func.attr == "value" and (chain(a.func.value) or "").endswith("observation_nan_policy")):
                    return b.value
    return None


def policy_branches(fi: FuncInfo) -> Tuple[Dict[str, List[ast.stmt]], bool, List[ast.If]]:
    """policy -> statements executed for it; whether there is an else/fall-through; the If nodes"""
    names = policy_names(fi)
    out: Dict[str, List[ast.stmt]] = {}
    has_else = False
    ifs = []
    for n in ast.walk(fi.node):
        if isinstance(n, ast.If):
            p = _compared_policy(n.test, names)
            if p is None:
                continue
            ifs.append(n)
            out.setdefault(p, []).extend(n.body)
            # walk the elif chain
            cur = n
            while len(cur.orelse) == 1 and isinstance(cur.orelse[0], ast.If) and _compared_policy(cur.orelse[0].test, names):
                cur = cur.orelse[0]
            if cur.orelse:
                # trailing else: the remaining policy/policies
                has_else = True
                out.setdefault("<else>", []).extend(cur.orelse)
    return out, has_else, ifs


def run(idx: ProgramIndex, rep: Report, tier: str):
    rep.explanation = (
        "Every function that reads settings.observation_nan_policy.value() (or receives it as memo-key argument) is analysed: the "
        "if/elif chain over the policy string must decide 'mask' and 'fill' explicitly or raise, with 'ignore' as remaining case; in "
        "each mask branch the mask produced by _get_observed must index the mean, both axes of every train x train covariance "
        "(MaskedLinearOperator(K, m, m)), the train axis of test x train operators, the targets and the noise; the mean cache must "
        "take the policy as key; every strategy override of mean_cache/_mean_cache/exact_predictive_mean and every implementation of "
        "exact_predictive_covar must read the policy or raise; the MLL must divide by the event size of the masked marginal.")
    rep.rule("C16-1", "every consumer of the NaN policy decides mask and fill explicitly (or raises) and leaves ignore as the remaining case")
    rep.rule("C16-2", "in every mask branch one _get_observed mask indexes the mean, every train-indexed covariance axis, the targets and the noise")
    rep.rule("C16-3", "the mean cache is keyed by the policy")
    rep.rule("C16-4", "prediction-strategy overrides of the mean path handle or reject the policy")
    rep.rule("C16-5", "the exact MLL is divided by the event size of the masked marginal (count of observed values)")
    rep.rule("C16-6", "every implementation of the posterior covariance consumes the policy")
    consumers = []
    for fi in idx.all_functions():
        if reads_policy(fi) or (fi.cls is not None and any("nan_policy" in p for p in fi.params)):
            consumers.append(fi)
    rep.floor("C16-1", "consumers of observation_nan_policy", len(consumers), 5)
    for fi in sorted(consumers, key=lambda f: (f.module.name, f.qualname)):
        exhaustive(fi, rep)
        same_mask(fi, rep)
    keyed_cache(idx, rep)
    own_policy_key(idx, rep, consumers)
    mask_layout(idx, rep, sorted(consumers, key=lambda f: (f.module.name, f.qualname)))
    override_coverage(idx, rep)
    mll_scaling(idx, rep)
    covariance_consumes(idx, rep)
    added_terms_masked(idx, rep, consumers)
    solution_containers(idx, rep, consumers)
    foreign_planters(idx, rep)
    fill_is_per_element(idx, rep, consumers)
    overrides_consume_policy(idx, rep)
    rep.rule("C16-7", "the NaN entries that record which observations are missing survive every consumer: no in-place update of cached tensors, object-owned tensors or the caller's targets (storage/version domain)")
    from .common_alias import aliasing_obligations
    aliasing_obligations(idx, rep, "C16-7", sorted(consumers, key=lambda f: (f.module.name, f.qualname)), 5, "policy consumers interpreted for in-place updates")


# ---- C16-1 ---------------------------------------------------------------------------------------------------------
def exhaustive(fi: FuncInfo, rep: Report):
    br, has_else, ifs = policy_branches(fi)
    inst = "%s:%s" % (fi.module.name, fi.qualname)
    if not ifs:
        # passes the value on (mean_cache -> _mean_cache(policy))
        forwards = any(isinstance(c.func, ast.Attribute) and any(a in reads_policy(fi) for a in c.args) for c in calls_in(fi.node))
        rep.add("C16-1", inst, fi.where, forwards, "forwards the policy value as an argument (decided by the callee)" if forwards else "reads the NaN policy but neither branches on it nor forwards it", {}, trivial=True)
        return
    decided = {p for p in br if p in POLICIES}
    probs = []
    for p in ("mask", "fill"):
        if p not in decided:
            # accepted: the remaining policies fall into an else that follows explicit tests of the other two
            if has_else and len(decided) == 2 and (set(POLICIES) - decided) == {p}:
                continue
            probs.append("policy '%s' is not decided (it would be treated like '%s')" % (p, "the else branch" if has_else else "ignore"))
    if "ignore" not in decided and has_else and len(decided) < 2:
        probs.append("the else branch lumps several policies together")
    unknown = [p for p in br if p not in POLICIES and p != "<else>"]
    if unknown:
        probs.append("compares the policy with unknown value(s) %s" % unknown)
    rep.add("C16-1", inst, fi.where, not probs, "decides %s explicitly%s" % (sorted(decided), ", remaining policy in the else branch" if has_else else ", 'ignore' falls through") if not probs else "; ".join(probs),
            {"decided": sorted(decided), "else": has_else})


# ---- C16-2 ---------------------------------------------------------------------------------------------------------
def same_mask(fi: FuncInfo, rep: Report):
    br, _, _ = policy_branches(fi)
    body = br.get("mask")
    if not body:
        return
    inst = "%s:%s[mask branch]" % (fi.module.name, fi.qualname)
    mod = ast.Module(body=body, type_ignores=[])
    # the mask
    masks = [n for n in ast.walk(mod) if isinstance(n, ast.Assign) and isinstance(n.value, ast.Call) and (chain(n.value.func) or "").endswith("_get_observed") and isinstance(n.targets[0], ast.Name)]
    if not masks:
        # computed once in front of the policy branches and used in the mask branch
        used = {x.id for x in ast.walk(mod) if isinstance(x, ast.Name)}
        masks = [n for n in ast.walk(fi.node) if isinstance(n, ast.Assign) and isinstance(n.value, ast.Call) and (chain(n.value.func) or "").endswith("_get_observed")
                 and isinstance(n.targets[0], ast.Name) and n.targets[0].id in used and n.lineno < body[0].lineno]
    probs = []
    if len(masks) != 1:
        rep.add("C16-2", inst, fi.where, False, "expected exactly one _get_observed mask in the mask branch, found %d" % len(masks), {})
        return
    m = masks[0].targets[0].id
    derived = {m, "%s.reshape(-1)" % m}

    def is_mask(e: ast.AST) -> bool:
        t = src(e)
        return t == m or t == "%s.reshape(-1)" % m or t == "%s.view(-1)" % m or t == "%s.flatten()" % m

    facts = {"mask": m, "masked_operators": [], "indexed": []}
    # MaskedLinearOperator calls
    for c in ast.walk(mod):
        if isinstance(c, ast.Call) and (chain(c.func) or "").split(".")[-1] == "MaskedLinearOperator":
            if len(c.args) != 3:
                probs.append("MaskedLinearOperator with %d arguments" % len(c.args))
                continue
            base_t, r, cc = src(c.args[0]), c.args[1], c.args[2]
            facts["masked_operators"].append(norm(c)[:100])
            is_cross = "test_train" in base_t or "test" in base_t
            if is_cross:
                # rows = test points (full mask), columns = train points (observed mask)
                if not is_mask(cc):
                    probs.append("the train axis of `%s` is not masked with `%s`" % (base_t[:50], m))
                if is_mask(r):
                    probs.append("the test axis of `%s` is masked with the training mask" % base_t[:50])
            else:
                if not (is_mask(r) and is_mask(cc)):
                    probs.append("train x train operator `%s` is not masked with `%s` on both axes" % (base_t[:50], m))
    # subscripts with the mask: which bases are indexed
    indexed = set()
    for s in ast.walk(mod):
        if isinstance(s, ast.Subscript):
            sl = s.slice
            elts = sl.elts if isinstance(sl, ast.Tuple) else [sl]
            if any(isinstance(e, ast.Name) and e.id == m for e in elts):
                indexed.add(src(s.value))
    facts["indexed"] = sorted(indexed)
    # obligations by role: every tensor the branch re-binds from a parameter must be indexed with the mask
    params = set(fi.params[1:])
    rebound = set()
    for n in ast.walk(mod):
        if isinstance(n, ast.Assign):
            for t in n.targets:
                if isinstance(t, ast.Name) and t.id in params:
                    rebound.add(t.id)
    roles = {
        "target": [p for p in params if p in ("target", "observations", "targets")],
        "noise": ["noise"] if any(isinstance(n, ast.Name) and n.id == "noise" for n in ast.walk(fi.node)) and fi.name == "expected_log_prob" else [],
    }
    for role, names in roles.items():
        for nm in names:
            if not any(ix == nm or ix.startswith(nm + "[") for ix in indexed):
                probs.append("%s `%s` is not indexed with the observed mask `%s`" % (role, nm, m))
    # a masked distribution must mask mean and covariance together
    for c in ast.walk(mod):
        if isinstance(c, ast.Call) and (chain(c.func) or "").split(".")[-1] == "MultivariateNormal":
            kw = {k.arg: k.value for k in c.keywords}
            mean_e = kw.get("mean", c.args[0] if c.args else None)
            cov_e = kw.get("covariance_matrix", c.args[1] if len(c.args) > 1 else None)
            if mean_e is None or not any(isinstance(e, ast.Name) and e.id == m for e in ast.walk(mean_e)):
                probs.append("the mean of the masked distribution is not indexed with `%s`" % m)
            if cov_e is None or "MaskedLinearOperator" not in src(cov_e):
                probs.append("the covariance of the masked distribution is not a MaskedLinearOperator")
    # scatter-back in the cache: solve on masked operator, write into [..., observed]
    if fi.name == "_mean_cache":
        scat = [n for n in ast.walk(mod) if isinstance(n, ast.Assign) and isinstance(n.targets[0], ast.Subscript) and any(isinstance(e, ast.Name) and e.id == m for e in ast.walk(n.targets[0].slice))]
        if not scat:
            probs.append("the masked solve is not scattered back with the same mask")
        elif not any("[..., %s" % m in src(s.value) or "%s, :]" % m in src(s.value) for s in scat):
            probs.append("the right-hand side of the masked solve is not restricted with `%s`" % m)
        if not any(isinstance(c, ast.Call) and (chain(c.func) or "") == "torch.full_like" and "nan" in src(c) for c in ast.walk(mod)):
            probs.append("unobserved entries of the cache are not marked NaN (the predictive mean derives its mask from them)")
    rep.add("C16-2", inst, fi.where, not probs, "one mask `%s`: %d masked operator(s), indexed %s" % (m, len(facts["masked_operators"]), sorted(indexed)) if not probs else "; ".join(sorted(set(probs))), facts)


# ---- C16-3 ---------------------------------------------------------------------------------------------------------
def keyed_cache(idx: ProgramIndex, rep: Report):
    D = idx.find_class("DefaultPredictionStrategy")
    mc = idx.method(D, "_mean_cache", own=True)
    dec = mc.cached_decorator()
    ig = False
    if isinstance(dec, ast.Call):
        ig = any(k.arg == "ignore_args" and isinstance(k.value, ast.Constant) and k.value.value for k in dec.keywords)
    has_param = any("nan_policy" in p for p in mc.params[1:])
    prop = idx.method(D, "mean_cache", own=True)
    passes = any(isinstance(c.func, ast.Attribute) and c.func.attr == "_mean_cache" and any(a in reads_policy(prop) for a in c.args) for c in calls_in(prop.node))
    # the body must not read the global itself (the key must be the only source)
    reads_global = bool(reads_policy(mc))
    ok = dec is not None and not ig and has_param and passes and not reads_global
    rep.add("C16-3", "%s:DefaultPredictionStrategy._mean_cache[key]" % D.module.name, mc.where, ok,
            "memoised with the policy as key argument, supplied by mean_cache from the current setting" if ok else
            "the mean cache is not keyed by the NaN policy (cached=%s, ignore_args=%s, policy parameter=%s, passed by mean_cache=%s, reads global in body=%s): a switch of policy returns the stale cache" % (dec is not None, ig, has_param, passes, reads_global), {})


def own_policy_key(idx: ProgramIndex, rep: Report, consumers):
    """C16-3 (second half): what is computed for one policy uses only cache entries of that policy.  Every access to a
    policy-keyed entry by a *literal* policy ("ignore"/"mask"/"fill" as key argument of get_from_cache / add_to_cache /
    pop_from_cache / a @cached method that takes the policy) must sit in the branch of that very policy."""
    POL = {"ignore", "mask", "fill"}
    n = 0
    for fi in consumers:
        branches, has_else, ifs = policy_branches(fi)
        decided = set(branches) - {"<else>"}
        where_of: Dict[int, str] = {}
        for pol, stmts in branches.items():
            for st in stmts:
                for x in ast.walk(st):
                    where_of.setdefault(id(x), pol)
        probs = []
        for c in calls_in(fi.node):
            lits = [a.value for a in list(c.args) + [k.value for k in c.keywords] if isinstance(a, ast.Constant) and isinstance(a.value, str) and a.value in POL]
            fn = (chain(c.func) or "").split(".")[-1]
            if not lits or not (fn in ("get_from_cache", "add_to_cache", "pop_from_cache", "is_in_cache") or "mean_cache" in fn or "cache" in fn):
                continue
            n += 1
            here = where_of.get(id(c))
            if here == "<else>":
                rest = POL - decided
                here = next(iter(rest)) if len(rest) == 1 else None
            for lit in lits:
                if here is None:
                    probs.append("`%s` reads/writes the cache entry of policy '%s' outside any policy branch" % (" ".join(src(c).split())[:60], lit))
                elif lit != here:
                    probs.append("the '%s' branch uses the cache entry of policy '%s' (`%s`): 'mask' drops an input for the whole batch when it is missing in any batch element, 'fill' only per element, so the entries differ" % (here, lit, " ".join(src(c).split())[:60]))
        if probs:
            rep.add("C16-3", "%s:%s[own-policy key]" % (fi.module.name, fi.qualname), fi.where, False, "; ".join(sorted(set(probs))), {})
    rep.add("C16-3", "gpytorch:<policy-keyed cache accesses by literal key>", "gpytorch/", True, "%d access(es) by literal policy key inspected; each sits in the branch of its own policy" % n, {"accesses": n}, trivial=True)


# ---- C16-4 ---------------------------------------------------------------------------------------------------------
def _handles_policy(idx: ProgramIndex, cls: ClassInfo, fi: FuncInfo) -> bool:
    """reads the policy (directly, via a keyed callee) or raises unless it is 'ignore'"""
    for f in reachable_self_functions(idx, cls, [fi]):
        if reads_policy(f):
            return True
    return False


def override_coverage(idx: ProgramIndex, rep: Report):
    D = idx.find_class("DefaultPredictionStrategy")
    n = 0
    for cls in idx.subclasses(D, strict=True):
        for name in ("mean_cache", "_mean_cache", "exact_predictive_mean"):
            fi = cls.methods.get(name)
            if fi is None:
                continue
            n += 1
            # the override itself must branch on the policy (or take it as key) or delegate to the base implementation
            ok = bool(reads_policy(fi)) or any("nan_policy" in p for p in fi.params) or any(is_super_call(c, name) for c in calls_in(fi.node)) \
                or any(isinstance(a, ast.Attribute) and isinstance(a.value, ast.Call) and isinstance(a.value.func, ast.Name) and a.value.func.id == "super" and a.attr == name for a in ast.walk(fi.node))
            rep.add("C16-4", "%s:%s.%s" % (cls.module.name, cls.qualname, name), fi.where, ok,
                    "override consumes the NaN policy" if ok else "override of %s ignores settings.observation_nan_policy: under 'mask'/'fill' NaN targets propagate into the predictive mean" % name, {})
    rep.floor("C16-4", "strategy overrides of the mean path", n, 2)


# ---- C16-5 ---------------------------------------------------------------------------------------------------------
def mll_scaling(idx: ProgramIndex, rep: Report):
    M = idx.find_class("ExactMarginalLogLikelihood")
    fi = idx.method(M, "forward", own=True)
    dist = fi.params[1]
    # the value that divides the result
    div = [c for c in calls_in(fi.node) if isinstance(c.func, ast.Attribute) and c.func.attr in ("div", "div_") and c.args]
    probs = []
    if len(div) != 1:
        probs.append("expected one division of the result")
    else:
        d = div[0].args[0]
        expr = d
        if isinstance(d, ast.Name):
            for n in ast.walk(fi.node):
                if isinstance(n, ast.Assign) and any(isinstance(t, ast.Name) and t.id == d.id for t in n.targets):
                    expr = n.value
        t = src(expr)
        br, _, _ = policy_branches(fi)
        rebound_in_mask = set()
        for st in br.get("mask", []):
            for n in ast.walk(st):
                if isinstance(n, ast.Assign):
                    for tg in n.targets:
                        if isinstance(tg, ast.Name):
                            rebound_in_mask.add(tg.id)
        base = t.split(".")[0]
        if base not in rebound_in_mask:
            probs.append("the MLL is divided by `%s`, which is not re-bound in the mask branch: NaN entries are counted as data (objective differs from the data-deleted model by n_observed / n_total)" % t)
    rep.add("C16-5", "%s:ExactMarginalLogLikelihood.forward[num_data]" % M.module.name, fi.where, not probs, "divides by the event size of the (masked) marginal" if not probs else "; ".join(probs), {})


# ---- C16-6 ---------------------------------------------------------------------------------------------------------
def covariance_consumes(idx: ProgramIndex, rep: Report):
    D = idx.find_class("DefaultPredictionStrategy")
    n = 0
    for cls in idx.subclasses(D):
        fi = cls.methods.get("exact_predictive_covar")
        if fi is None:
            continue
        n += 1
        ok = _handles_policy(idx, cls, fi)
        rep.add("C16-6", "%s:%s.exact_predictive_covar" % (cls.module.name, cls.qualname), fi.where, ok,
                "consumes the NaN policy" if ok else "the posterior covariance is computed from the full train x train covariance whatever the NaN policy: inputs whose targets are missing still reduce the predictive uncertainty (differs from the data-deleted model)", {})
    rep.floor("C16-6", "implementations of exact_predictive_covar", n, 4)


# ---- C16-8: the mask is flattened in the layout of the covariance it indexes -------------------------------------------------
def mask_layout(idx: ProgramIndex, rep: Report, consumers):
    """`_get_observed(y, dist.event_shape)` returns the mask in the natural (.., n, t) layout of a multitask distribution;
    `mask.reshape(-1)` flattens it point-major (interleaved).  Indexing `dist.lazy_covariance_matrix` with it is right only for an
    interleaved covariance: a function that may receive a MultitaskMultivariateNormal has to consult `_interleaved` (flatten the
    mask, the mean and the targets task-major otherwise)."""
    rep.rule("C16-8", "a mask obtained for dist.event_shape is flattened in the layout of dist's covariance (functions that index a possibly non-interleaved multitask covariance consult _interleaved)")
    n = 0
    for fi in consumers:
        masks = {}
        for a in ast.walk(fi.node):
            if isinstance(a, ast.Assign) and len(a.targets) == 1 and isinstance(a.targets[0], ast.Name) and isinstance(a.value, ast.Call) and isinstance(a.value.func, ast.Attribute) and a.value.func.attr == "_get_observed" and len(a.value.args) == 2:
                shp = a.value.args[1]
                if isinstance(shp, ast.Attribute) and shp.attr == "event_shape":
                    masks[a.targets[0].id] = chain(shp.value)
        for m, dist in sorted(masks.items()):
            flat_on_cov = False
            for c in calls_in(fi.node):
                if (chain(c.func) or "").split(".")[-1] == "MaskedLinearOperator" and c.args and (chain(c.args[0]) or "").startswith(dist + "."):
                    if any(isinstance(x, ast.Call) and isinstance(x.func, ast.Attribute) and x.func.attr in ("reshape", "view", "flatten") and chain(x.func.value) == m for a_ in c.args[1:] for x in ast.walk(a_)):
                        flat_on_cov = True
            if not flat_on_cov:
                continue
            n += 1
            consults = any(isinstance(x, ast.Attribute) and x.attr in ("_interleaved", "interleaved") for x in ast.walk(fi.node))
            rep.add("C16-8", "%s:%s[%s.reshape(-1) on %s covariance]" % (fi.module.name, fi.qualname, "mask", "the distribution's"), fi.where, consults,
                    "the layout flag is consulted" if consults else
                    "the (.., n, t) mask is flattened point-major and applied to `%s.lazy_covariance_matrix` without looking at _interleaved: for a non-interleaved multitask distribution (task-major covariance) other entries than the missing ones are removed" % dist, {})
    rep.floor("C16-8", "masks flattened onto a distribution's covariance", n, 3)


# ---- C16-9: data-sized terms added to a masked objective are masked too ---------------------------------------------------------
def added_terms_masked(idx: ProgramIndex, rep: Report, consumers):
    """An objective that removes the missing observations from the marginal (mask branch) and then adds terms that kernels build from
    the training inputs of the same call (AddedLossTerm objects constructed inside a Kernel method, whose loss() reduces over the data
    dimension) has to restrict those terms with the same mask - otherwise the missing points still contribute.  Decided structurally:
    the call that fetches `added_loss_term.loss(...)` on the mask path must receive something derived from the mask."""
    rep.rule("C16-9", "data-sized added loss terms built by kernels from the training inputs are restricted by the same mask as the marginal")
    kernel = idx.cls(idx.package + ".kernels.kernel", "Kernel")
    alt = idx.cls(idx.package + ".mlls.added_loss_term", "AddedLossTerm")
    data_terms = []
    for cls in idx.package_classes():
        if cls is alt or not cls.is_subclass_of(alt):
            continue
        loss = cls.lookup("loss")
        if loss is None:
            continue
        reduces = [c for c in calls_in(loss.node) if isinstance(c.func, ast.Attribute) and c.func.attr in ("sum", "mean", "logsumexp")]
        if not reduces:
            continue
        for fi in idx.all_functions():
            if fi.cls is None or not fi.cls.is_subclass_of(kernel):
                continue
            for c in calls_in(fi.node):
                if (chain(c.func) or "").split(".")[-1] == cls.name:
                    inputs = {p for p in fi.params[1:3]}
                    if any(isinstance(x, ast.Name) and x.id in inputs for a in list(c.args) + [k.value for k in c.keywords] for x in ast.walk(a)):
                        data_terms.append((cls, fi, c))
    n = 0
    for fi in consumers:
        if fi.cls is None or fi.name != "forward" or not any("MarginalLogLikelihood" in b.name for b in fi.cls.mro() if hasattr(b, "name")):
            continue
        br, has_else, ifs = policy_branches(fi)
        if "mask" not in br:
            continue
        masks = {a.targets[0].id for a in ast.walk(fi.node) if isinstance(a, ast.Assign) and len(a.targets) == 1 and isinstance(a.targets[0], ast.Name)
                 and isinstance(a.value, ast.Call) and isinstance(a.value.func, ast.Attribute) and a.value.func.attr == "_get_observed"}
        # calls of own helpers / loss() after the mask branch
        sites = []
        for c in calls_in(fi.node):
            if isinstance(c.func, ast.Attribute) and c.func.attr == "loss":
                sites.append((fi, c, None))
            elif isinstance(c.func, ast.Attribute) and chain(c.func.value) == "self":
                callee = fi.cls.lookup(c.func.attr)
                if callee is not None:
                    for c2 in calls_in(callee.node):
                        if isinstance(c2.func, ast.Attribute) and c2.func.attr == "loss":
                            sites.append((callee, c2, c))
        for holder, lc, via in sites:
            if via is None:
                gets = any(isinstance(x, ast.Name) and x.id in masks for a in list(lc.args) + [k.value for k in lc.keywords] for x in ast.walk(a))
            else:
                passed = [i for i, a in enumerate(via.args) if any(isinstance(x, ast.Name) and x.id in masks for x in ast.walk(a))]
                pnames = {holder.params[1:][i] for i in passed if i < len(holder.params) - 1}
                pnames |= {k.arg for k in via.keywords if any(isinstance(x, ast.Name) and x.id in masks for x in ast.walk(k.value))}
                gets = any(isinstance(x, ast.Name) and x.id in pnames for a in list(lc.args) + [k.value for k in lc.keywords] for x in ast.walk(a))
            for cls, kfi, kc in data_terms:
                n += 1
                inst = "%s:%s[mask] -> %s.loss" % (fi.module.name, fi.qualname, cls.name)
                rep.add("C16-9", inst, "%s:%d" % (holder.module.relpath, lc.lineno), gets,
                        "the mask reaches the added loss term" if gets else
                        "under the 'mask' policy the marginal is restricted to the observed values, but `%s` is evaluated without the mask: %s (built in %s from the inputs of the call) reduces over all training points, so points whose observation is missing still contribute to the objective" % (
                            " ".join(src(lc).split())[:50], cls.name, kfi.qualname), {"term_built_at": "%s:%d" % (kfi.module.relpath, kc.lineno)})
    rep.floor("C16-9", "masked objective x data-sized kernel-built term", n, 1)


# ---- C16-10: the container of a masked solve has the shape of the solved system -------------------------------------------------
def solution_containers(idx: ProgramIndex, rep: Report, consumers):
    """Under 'mask' the solution exists for the observed entries only and is scattered into a NaN-filled container
    (`c = torch.full_like(A, nan); c[..., observed] = K.solve(rhs[..., observed, :])`).  The right-hand side is labels minus prior mean:
    its batch shape is the broadcast of the labels' and the prior's batch shapes.  A container shaped like the labels alone is too small
    whenever the hyper-parameters carry a batch dimension the (shared) labels lack."""
    rep.rule("C16-10", "the NaN-filled container that receives a masked solve is shaped like the right-hand side of that solve (labels broadcast with the prior), not like the labels alone")
    from ..symbolic import inline, walk_paths
    n = 0
    for fi in consumers:
        seen = set()
        for path, seq in walk_paths(fi):
            conts = {}
            for st, env in seq:
                if not isinstance(st, ast.stmt):
                    continue
                if isinstance(st, ast.Assign) and len(st.targets) == 1 and isinstance(st.targets[0], ast.Name) and isinstance(st.value, ast.Call) and chain(st.value.func) in ("torch.full_like", "torch.empty_like", "torch.zeros_like") and st.value.args:
                    conts[st.targets[0].id] = (inline(st.value.args[0], env), st.lineno)
                if isinstance(st, ast.Assign) and len(st.targets) == 1 and isinstance(st.targets[0], ast.Subscript) and isinstance(st.targets[0].value, ast.Name) and st.targets[0].value.id in conts:
                    solves = [c for c in ast.walk(st.value) if isinstance(c, ast.Call) and isinstance(c.func, ast.Attribute) and c.func.attr in ("solve", "inv_matmul") and c.args]
                    if not solves:
                        continue
                    shape_src, line = conts[st.targets[0].value.id]
                    if (fi.qualname, line) in seen:
                        continue
                    seen.add((fi.qualname, line))
                    n += 1
                    rhs = inline(solves[0].args[0], env)
                    rhs_roots = {chain(x) for x in ast.walk(rhs) if isinstance(x, ast.Attribute) and chain(x) and chain(x).startswith("self.")} | {x.id for x in ast.walk(rhs) if isinstance(x, ast.Name)}
                    cont_roots = {chain(x) for x in ast.walk(shape_src) if isinstance(x, ast.Attribute) and chain(x) and chain(x).startswith("self.")} | {x.id for x in ast.walk(shape_src) if isinstance(x, ast.Name)}
                    rhs_roots.discard("self"); cont_roots.discard("self")
                    rhs_roots.discard("torch"); cont_roots.discard("torch")
                    # operands of the right-hand side that the container's shape does not see
                    unseen = sorted(r for r in rhs_roots - cont_roots if r and not r.startswith("settings") and r not in ("observed",) and not any(r == c or c.startswith(r + ".") or r.startswith(c + ".") for c in cont_roots))
                    # index-only names (masks) do not contribute a shape
                    masks = {a.targets[0].id for a in ast.walk(fi.node) if isinstance(a, ast.Assign) and len(a.targets) == 1 and isinstance(a.targets[0], ast.Name) and isinstance(a.value, ast.Call) and isinstance(a.value.func, ast.Attribute) and a.value.func.attr in ("_get_observed", "isnan")}
                    unseen = [u for u in unseen if u not in masks]
                    ok = not unseen
                    rep.add("C16-10", "%s:%s[container of the masked solve]" % (fi.module.name, fi.qualname), "%s:%d" % (fi.module.relpath, line), ok,
                            "the container is shaped like the right-hand side of the solve" if ok else
                            "the container is shaped like `%s` but the right-hand side of the solve also depends on %s: when those carry batch dimensions the labels lack (batched hyper-parameters, shared targets) the scattered solution does not fit (shape mismatch) " % (" ".join(src(shape_src).split())[:50], ", ".join(unseen)[:80]), {})
    rep.floor("C16-10", "containers of masked solves", n, 1)


# ---- C16-11 --------------------------------------------------------------------------------------------------------
def foreign_planters(idx: ProgramIndex, rep: Report):
    """The reader DefaultPredictionStrategy._mean_cache(nan_policy) is keyed by the policy IN FORCE AT PREDICTION TIME and recomputes a
    missing entry from the strategy's likelihood and prior.  Code outside the prediction-strategy classes that plants a hand-made mean cache
    (the variational pseudo-point models, whose train/train covariance was overridden by hand and cannot be recomputed) therefore has to
    plant it under every policy: an entry under 'ignore' only is missed under 'mask' / 'fill' and silently replaced by the recomputation."""
    rep.rule("C16-11", "a mean cache planted from outside the prediction-strategy classes is planted under every NaN policy key ('ignore', 'mask', 'fill'): the reader's key is the policy at prediction time and its recomputation is not the planter's")
    POL = {"ignore", "mask", "fill"}
    D = idx.find_class("DefaultPredictionStrategy")
    n = 0
    for fi in sorted(idx.all_functions(), key=lambda f: (f.module.name, f.qualname)):
        if fi.cls is not None and (fi.cls is D or fi.cls.is_subclass_of(D)):
            continue
        sites = [c for c in calls_in(fi.node) if isinstance(c.func, ast.Name) and c.func.id == "add_to_cache" and len(c.args) >= 3 and const_str(c.args[1]) == "mean_cache"]
        if not sites:
            continue
        # group by the object planted into
        by_obj: Dict[str, Set[str]] = {}
        first: Dict[str, ast.Call] = {}
        for c in sites:
            obj = src(c.args[0])
            first.setdefault(obj, c)
            keys = by_obj.setdefault(obj, set())
            k = c.args[3] if len(c.args) > 3 else None
            if k is None:
                keys.add("<none>")
            elif isinstance(k, ast.Constant) and isinstance(k.value, str):
                keys.add(k.value)
            elif isinstance(k, ast.Name):
                # a loop variable over a literal collection of policies
                lit = None
                for loop in ast.walk(fi.node):
                    it = loop.iter if isinstance(loop, ast.For) else None
                    # `A if complete else B`: all policies when the targets are complete (what this clause is about: no NaN at all)
                    if isinstance(it, ast.IfExp) and any("isnan" in src(a_.value) for a_ in ast.walk(fi.node) if isinstance(a_, ast.Assign) and any(isinstance(t_, ast.Name) and t_.id in {x.id for x in ast.walk(it.test) if isinstance(x, ast.Name)} for t_ in a_.targets)):
                        neg = isinstance(it.test, ast.UnaryOp) and isinstance(it.test.op, ast.Not)
                        it = it.orelse if neg else it.body
                    if isinstance(loop, ast.For) and isinstance(loop.target, ast.Name) and loop.target.id == k.id and isinstance(it, (ast.Tuple, ast.List, ast.Set)) \
                            and all(isinstance(e, ast.Constant) and isinstance(e.value, str) for e in it.elts) and any(x is c for x in ast.walk(loop)):
                        lit = {e.value for e in it.elts}
                keys.update(lit if lit is not None else {"<%s>" % k.id})
            else:
                keys.add("<%s>" % " ".join(src(k).split())[:30])
        for obj, keys in sorted(by_obj.items()):
            n += 1
            missing = POL - keys
            rep.add("C16-11", "%s:%s[plants mean_cache of %s]" % (fi.module.name, fi.qualname, obj), "%s:%d" % (fi.module.relpath, first[obj].lineno), not missing,
                    "planted under every policy key" if not missing else
                    "the hand-made mean cache of `%s` is planted under the key(s) %s only: under observation_nan_policy(%s) the reader misses it and recomputes the cache from the strategy's likelihood, which for this model (train/train covariance overridden by hand) is a different quantity - the posterior mean then depends on the policy even without a single NaN"
                    % (obj, ", ".join(sorted(repr(k) for k in keys)), " / ".join(repr(m) for m in sorted(missing))), {})
            # (b) planted under 'mask' / 'fill' for targets that come from the caller: the planter then has to treat missing targets as the policy says
            if not missing and any(p in ("targets", "target", "train_targets", "labels") for p in fi.params):
                n += 1
                consumes = bool(reads_policy(fi))
                rep.add("C16-11", "%s:%s[missing targets under the planted 'mask' / 'fill' entries]" % (fi.module.name, fi.qualname), "%s:%d" % (fi.module.relpath, first[obj].lineno), consumes,
                        "the planter consumes the policy" if consumes else
                        "%s receives targets from its caller and plants one mean cache, computed from the labels as they are, under 'mask' and 'fill' as well: a NaN among the targets is neither masked nor filled in that cache" % fi.qualname, {})
    rep.floor("C16-11", "mean caches planted from outside the strategy classes", n, 2)


# ---- C16-12 --------------------------------------------------------------------------------------------------------
def overrides_consume_policy(idx: ProgramIndex, rep: Report):
    """A method that consumes the policy defines what its quantity means when targets are missing; an override that neither consumes the
    policy nor delegates to the overridden method silently drops that meaning (NaN out, or all points counted)."""
    rep.rule("C16-12", "an override of a method that consumes the NaN policy consumes it too or delegates to the overridden method")
    D = idx.find_class("DefaultPredictionStrategy")
    n = 0
    for cls in sorted(idx.package_classes(), key=lambda c: (c.module.name, c.qualname)):
        for name, m in sorted(cls.methods.items()):
            parent = cls.lookup(name, after=cls)
            if parent is None or not reads_policy(parent):
                continue
            if cls.is_subclass_of(D) and name in ("mean_cache", "_mean_cache", "exact_predictive_mean"):
                continue  # judged by C16-4
            n += 1
            ok = bool(reads_policy(m)) or any("nan_policy" in p for p in m.params) or any(is_super_call(c, name) for c in calls_in(m.node)) \
                or any(isinstance(a, ast.Attribute) and isinstance(a.value, ast.Call) and isinstance(a.value.func, ast.Name) and a.value.func.id == "super" and a.attr == name for a in ast.walk(m.node))
            if not ok and all(isinstance(st, (ast.Raise, ast.Pass)) or (isinstance(st, ast.Expr) and isinstance(st.value, ast.Constant)) for st in m.node.body):
                ok = True  # rejects outright
            rep.add("C16-12", "%s:%s.%s" % (cls.module.name, cls.qualname, name), m.where, ok,
                    "consumes the policy or delegates to %s.%s" % (parent.cls.qualname if parent.cls else "?", name) if ok else
                    "%s.%s consumes settings.observation_nan_policy; this override computes from the raw targets without it and does not delegate: NaN out under 'mask', no error under 'fill'" % (parent.cls.qualname if parent.cls else "?", name), {})
    rep.floor("C16-12", "overrides of policy-consuming methods", n, 3)


# ---- C16-13 --------------------------------------------------------------------------------------------------------
def fill_is_per_element(idx: ProgramIndex, rep: Report, consumers):
    """'mask' drops an input for the whole batch when its target is missing in ANY batch element (_get_observed reduces over the batch
    dimensions, as documented); 'fill' keeps every element's own observations: its branch has to locate the missing targets per element
    (torch.isnan of the labels).  A fill branch that uses the batch-reduced mask of the mask policy also drops valid observations of the
    other batch elements."""
    rep.rule("C16-13", "the 'fill' branch of a policy consumer locates missing targets per element (torch.isnan of the labels), never with the batch-reduced mask that _get_observed computes for the 'mask' policy")
    n = 0
    for fi in sorted(consumers, key=lambda f: (f.module.name, f.qualname)):
        br, _, _ = policy_branches(fi)
        body = br.get("fill")
        if not body and "<else>" in br and {"ignore", "mask"} <= set(br):
            body = br["<else>"]  # the remaining case of an if / elif chain that decided the other two
        if not body:
            continue
        if all(isinstance(st, ast.Raise) for st in body):
            continue
        n += 1
        reduced = {t.id for a in ast.walk(fi.node) if isinstance(a, ast.Assign) and isinstance(a.value, ast.Call) and (chain(a.value.func) or "").endswith("_get_observed") for t in a.targets if isinstance(t, ast.Name)}
        mod = ast.Module(body=body, type_ignores=[])
        uses = sorted({x.id for x in ast.walk(mod) if isinstance(x, ast.Name) and x.id in reduced} | ({"_get_observed(...)"} if any(isinstance(c, ast.Call) and (chain(c.func) or "").endswith("_get_observed") for c in ast.walk(mod)) else set()))
        per_elem = any(isinstance(c, ast.Call) and (chain(c.func) or "") in ("torch.isnan",) or (isinstance(c, ast.Call) and isinstance(c.func, ast.Attribute) and c.func.attr == "isnan") or (isinstance(c, ast.Call) and (chain(c.func) or "").endswith("_fill_tensor")) for c in ast.walk(mod))
        ok = not uses
        rep.add("C16-13", "%s:%s[fill branch]" % (fi.module.name, fi.qualname), fi.where, ok,
                "missing targets are located per element%s" % ("" if per_elem else " (no batch-reduced mask in the branch)") if ok else
                "the 'fill' branch uses %s, the mask that _get_observed reduces over ALL batch dimensions: with NaN patterns that differ between batch elements each element also loses its valid observations at the positions that are missing elsewhere (posterior means 0.03-0.19 off, also for an element without any NaN)" % ", ".join(uses), {})
    rep.floor("C16-13", "fill branches of policy consumers", n, 2)
