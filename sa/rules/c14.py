"""C14 - variational predictive and KL: thin structural clauses.

C14-1  at every KL site of gpytorch/variational the first argument is (built from) q(u) and the second (built from) the prior p(u)
C14-2  wrapper strategies (independent multitask, LMC) reduce the base KL over their own configured task/latent dimension - the
       very attribute that their __call__ uses to form the multitask distribution
C14-3  every __call__ override keeps the training-mode cache reset (shared with C03-2)
C14-4  prior=True short-circuits to the model's prior in every __call__
Does not decide the predictive equations.  (DESIGN.md section 4, C14.)
"""
from __future__ import annotations

import ast
from typing import Dict, List, Optional, Set, Tuple

from ..index import (AnalysisError, ClassInfo, FuncInfo, ProgramIndex, body_without_docstring, call_name, calls_in, chain, is_super_call, norm, src)
from ..report import Report
from . import c03

VAR_ROOTS = ("variational_distribution", "_variational_distribution")
PRIOR_ROOTS = ("prior_distribution", "model.forward", "model.covar_module", "model.mean_module", "model(")


def _closure_roots(fi: FuncInfo, e: ast.AST, depth=0, seen=None) -> Set[str]:
    """self-attribute chains that the value of expression e is derived from (def-use over locals)"""
    seen = seen or set()
    sn = fi.params[0]
    out: Set[str] = set()
    for n in ast.walk(e):
        if isinstance(n, ast.Attribute):
            c = chain(n)
            if c and c.startswith(sn + "."):
                out.add(c[len(sn) + 1:])
        if isinstance(n, ast.Name) and n.id not in seen and n.id != sn:
            seen.add(n.id)
            for a in ast.walk(fi.node):
                if isinstance(a, ast.Assign):
                    for t in a.targets:
                        ts = t.elts if isinstance(t, ast.Tuple) else [t]
                        if any(isinstance(x, ast.Name) and x.id == n.id for x in ts):
                            out |= _closure_roots(fi, a.value, depth + 1, seen)
    return out


def _side(roots: Set[str]) -> str:
    v = any(any(r == k or r.startswith(k + ".") or ("." + k) in r for k in VAR_ROOTS) for r in roots)
    p = any(any(k.rstrip("(") in r for k in PRIOR_ROOTS) for r in roots)
    if v and not p:
        return "q"
    if p and not v:
        return "p"
    return "mixed" if v and p else "unknown"


def run(idx: ProgramIndex, rep: Report, tier: str):
    rep.explanation = (
        "Provenance analysis (def-use closure to self-attribute roots) of both arguments of every kl_divergence call in "
        "gpytorch/variational: the first must derive from the variational distribution, the second from the prior; sibling rule for "
        "the multitask wrappers: the axis over which the base KL is summed must be the attribute that __call__ passes as task/latent "
        "dimension; training-mode cache reset of every __call__ override (same analysis as C03-2); prior=True returns the model prior. "
        "The predictive equations are numerical and not decided.")
    rep.rule("C14-1", "KL(q || p): variational distribution first, prior second, at every KL site")
    rep.rule("C14-2", "wrapper strategies sum the base KL over their configured task/latent dimension")
    rep.rule("C14-3", "every __call__ override keeps the training-mode cache reset")
    rep.rule("C14-5", "no in-place aliasing hazard in the variational strategies and distributions (storage/version domain)")
    rep.rule("C14-4", "prior=True short-circuits to the model prior")
    n = 0
    for fi in idx.all_functions():
        if not fi.module.name.startswith("gpytorch.variational"):
            continue
        for c in calls_in(fi.node):
            cn = chain(c.func) or ""
            if cn.split(".")[-1] == "kl_divergence" and len(c.args) == 2 and (cn.startswith("torch.") or cn == "kl_divergence"):
                n += 1
                a, b = _side(_closure_roots(fi, c.args[0])), _side(_closure_roots(fi, c.args[1]))
                ok = a == "q" and b == "p"
                rep.add("C14-1", "%s:%s:%s" % (fi.module.name, fi.qualname, norm(c)[:70]), "%s:%d" % (fi.module.relpath, c.lineno), ok,
                        "first argument derives from the variational distribution, second from the prior" if ok else
                        "KL arguments have provenance (%s, %s), expected (q, p): KL(p || q) is a different quantity" % (a, b), {"first": a, "second": b})
    rep.floor("C14-1", "KL sites", n, 4)
    prior_jitter(idx, rep)
    point_mass_terms(idx, rep)
    decoupled_slices(idx, rep)
    pseudo_targets(idx, rep)
    full_covariance_in_eval(idx, rep)
    wrapped_output_blocks(idx, rep)
    component_kl_reduced(idx, rep)
    prior_from_prior_mode(idx, rep)
    one_hot_axis_to_task_dim(idx, rep)
    reshape_of_expanded_rows(idx, rep)
    # C14-2
    vs = idx.find_class("_VariationalStrategy")
    m = 0
    for cls in idx.subclasses(vs, strict=True):
        kl = cls.methods.get("kl_divergence")
        if kl is None:
            continue
        sums = [c for c in calls_in(kl.node) if isinstance(c.func, ast.Attribute) and c.func.attr == "sum" and isinstance(c.func.value, ast.Call) and is_super_call(c.func.value, "kl_divergence")]
        if not sums:
            continue
        m += 1
        call_fi = cls.lookup("__call__")
        # the dimension attribute used to build the multitask distribution
        dim_attrs = set()
        for c in calls_in(call_fi.node):
            for k in c.keywords:
                if k.arg in ("task_dim", "block_dim", "dim") and chain(k.value) and chain(k.value).startswith("self."):
                    dim_attrs.add(chain(k.value))
        for n_ in ast.walk(call_fi.node):
            if isinstance(n_, ast.Attribute) and chain(n_) in ("self.latent_dim", "self.task_dim"):
                dim_attrs.add(chain(n_))
        d = [k.value for k in sums[0].keywords if k.arg == "dim"] or list(sums[0].args[:1])
        ok = bool(d) and chain(d[0]) in dim_attrs
        rep.add("C14-2", "%s:%s.kl_divergence" % (cls.module.name, cls.qualname), kl.where, ok,
                "base KL summed over %s, the dimension __call__ uses for the tasks/latents" % src(d[0]) if ok else
                "base KL is summed over `%s`, but __call__ forms the multitask distribution over %s: for a non-default dimension the KL of a task is mixed into the model batch" % (src(d[0]) if d else "all axes", sorted(dim_attrs)), {"dim_attrs": sorted(dim_attrs)})
    rep.floor("C14-2", "wrapper KL reductions", m, 2)
    # C14-3 / C14-4
    k = 0
    for cc in idx.subclasses(vs):
        call_fi = cc.lookup("__call__")
        if call_fi is None or call_fi.cls != cc:
            continue
        k += 1
        ok, why, facts = c03.training_call_clears(idx, cc, call_fi)
        rep.add("C14-3", "%s:%s.__call__" % (cc.module.name, cc.qualname), call_fi.where, ok, why, facts)
        # prior short circuit
        prior_param = "prior" in call_fi.params
        if prior_param:
            okp = False
            for st in ast.walk(call_fi.node):
                if isinstance(st, ast.If) and src(st.test) == "prior":
                    okp = any(isinstance(r, ast.Return) and r.value is not None and ("model.forward" in src(r.value) or "prior=True" in src(r.value) or "prior=prior" in src(r.value)) for r in ast.walk(st))
            delegates = any(isinstance(c, ast.Call) and any(kw.arg == "prior" and src(kw.value) == "prior" for kw in c.keywords) for c in calls_in(call_fi.node))
            rep.add("C14-4", "%s:%s.__call__[prior]" % (cc.module.name, cc.qualname), call_fi.where, okp or delegates, "prior=True returns the model prior (or is forwarded to the wrapped strategy)" if okp or delegates else "the prior=True short-circuit is gone: prior-mode calls return q(f)", {})
    rep.floor("C14-3", "__call__ definitions", k, 4)

    from .common_alias import aliasing_obligations
    funcs = []
    for c in idx.subclasses(vs) + idx.subclasses(idx.find_class("_VariationalDistribution")):
        funcs += list(c.methods.values())
    aliasing_obligations(idx, rep, "C14-5", funcs, 60, "variational strategy / distribution methods interpreted")

    encoded_consistently(idx, rep)
    predictive_assembly(idx, rep)
    symmetric_mixing(idx, rep)
    preprocessing_hook_not_skipped(idx, rep)
    conditional_reduction_on_every_path(idx, rep)


# ---- C14-6: q(u) is what the parameters encode, for every reader and in every mode ---------------------------------------
RAW_FACTOR_PARAMS = {
    # parameter -> why only its lower triangle is meaningful
    "chol_variational_covar": "CholeskyVariationalDistribution documents (and its forward enforces by a mask) that q(u) = N(m, tril(A) tril(A)^T)",
}


def _masked(e: ast.AST) -> bool:
    """does the (inlined) expression e pass the raw factor through a lower-triangular mask? (`.tril(..)`, torch.tril(..),
    `.mul(<mask>)` / `* <mask>` with a mask that is itself built by tril of ones)"""
    if isinstance(e, ast.Call):
        fn = chain(e.func) or ""
        if fn in ("torch.tril",) or (isinstance(e.func, ast.Attribute) and e.func.attr in ("tril", "tril_")):
            return True
        if isinstance(e.func, ast.Attribute) and e.func.attr in ("mul", "mul_") and e.args:
            return _is_tril_mask(e.args[0]) or _masked(e.func.value)
        if isinstance(e.func, ast.Attribute) and e.func.attr in ("to", "contiguous", "clone", "expand", "type_as", "unsqueeze", "squeeze"):
            return _masked(e.func.value)
    if isinstance(e, ast.BinOp) and isinstance(e.op, ast.Mult):
        return _is_tril_mask(e.left) or _is_tril_mask(e.right) or _masked(e.left) or _masked(e.right)
    return False


def _is_tril_mask(e: ast.AST) -> bool:
    for n in ast.walk(e):
        if isinstance(n, ast.Call) and ((chain(n.func) or "") == "torch.tril" or (isinstance(n.func, ast.Attribute) and n.func.attr == "tril")):
            # a mask is tril of ones / ones_like
            return any(isinstance(x, ast.Call) and (chain(x.func) or "").split(".")[-1] in ("ones", "ones_like", "new_ones") for x in ast.walk(n))
    return False


def _raw_param_in(e: ast.AST) -> Optional[str]:
    """name of the raw factor parameter that the (inlined) expression e is an alias / shape-only view / product of, if any"""
    if isinstance(e, ast.Attribute) and e.attr in RAW_FACTOR_PARAMS:
        return e.attr
    if isinstance(e, ast.Call):
        r = _raw_param_in(e.func.value) if isinstance(e.func, ast.Attribute) else None
        return r or (_raw_param_in(e.args[0]) if e.args else None)
    if isinstance(e, ast.BinOp):
        return _raw_param_in(e.left) or _raw_param_in(e.right)
    return None


def encoded_consistently(idx: ProgramIndex, rep: Report):
    rep.rule("C14-6", "q(u) is what the parameters encode for every reader and in every mode: triangular operators built from the raw Cholesky parameter are masked; variational distributions do not branch on self.training")
    n = 0
    for fi in sorted(idx.all_functions(), key=lambda f: (f.module.name, f.qualname)):
        if not fi.module.name.startswith("gpytorch.variational") and not fi.module.name.startswith("gpytorch.models"):
            continue
        if not any((chain(c.func) or "").split(".")[-1] == "TriangularLinearOperator" for c in calls_in(fi.node)):
            continue
        from ..symbolic import inline, walk_paths
        sites: Dict[int, Tuple[ast.Call, str, List[str]]] = {}
        for path, seq in walk_paths(fi):
            for st, env in seq:
                if not isinstance(st, ast.stmt):
                    continue
                for c in (x for x in ast.walk(st) if isinstance(x, ast.Call)):
                    if (chain(c.func) or "").split(".")[-1] == "TriangularLinearOperator" and c.args:
                        arg = inline(c.args[0], env)
                        p = _raw_param_in(arg)
                        if p is None:
                            continue
                        site = sites.setdefault(id(c), (c, p, []))
                        if not _masked(arg):
                            cond = " and ".join("%s is %s" % (src(s_.node)[:40], s_.truth) for s_ in path.steps if s_.kind == "assume")
                            site[2].append(cond or "always")
        for c, p, bad in sites.values():
            n += 1
            ok = not bad
            rep.add("C14-6", "%s:%s:TriangularLinearOperator(%s)" % (fi.module.name, fi.qualname, p), "%s:%d" % (fi.module.relpath, c.lineno), ok,
                    "on every path the raw factor passes through the lower-triangular mask" if ok else
                    "TriangularLinearOperator(%s) is built from the raw parameter `%s` without the lower-triangular mask (%s): matmul/to_dense read the strict upper triangle, so this reader sees a different q(u) than the masked one (%s)" % (src(c.args[0])[:50], p, "when " + sorted(set(bad))[0] if sorted(set(bad))[0] != "always" else "on every path", RAW_FACTOR_PARAMS[p]), {})
    rep.floor("C14-6", "triangular operators built from the raw Cholesky parameter", n, 3)
    vd = idx.find_class("_VariationalDistribution")
    k = 0
    for cc in idx.subclasses(vd):
        fw = cc.methods.get("forward")
        if fw is None:
            continue
        k += 1
        sn = fw.params[0]
        reads = [x for x in ast.walk(fw.node) if isinstance(x, ast.Attribute) and x.attr == "training" and isinstance(x.value, ast.Name) and x.value.id == sn]
        rep.add("C14-6", "%s:%s.forward[mode]" % (cc.module.name, cc.qualname), fw.where, not reads,
                "q(u) does not depend on the training flag" if not reads else
                "forward branches on self.training (line %d): the same parameters encode a different q(u) in training and in evaluation mode" % reads[0].lineno, {})
    rep.floor("C14-6", "variational distribution forwards", k, 5)


# ---- C14-7: predictive q(f) assembly in the non-commutative affine domain -------------------------------------------------
def _joint_classifier(fi: FuncInfo, z_param: str, x_param: str, extra: Dict[str, str]):
    """symbols for blocks of the joint prior on cat([Z, X]): K{Z,X}{Z,X}, M{Z,X}; the Cholesky factor of KZZ is L"""
    sn = fi.params[0]

    def is_joint(e: ast.AST) -> bool:
        """<self.model.forward(cat([Z, X]) ...)>"""
        if isinstance(e, ast.Call) and chain(e.func) in ("%s.model.forward" % sn, "%s.model" % sn) and e.args:
            a = e.args[0]
            return isinstance(a, ast.Call) and chain(a.func) == "torch.cat" and a.args and isinstance(a.args[0], (ast.List, ast.Tuple)) \
                and [src(x) for x in a.args[0].elts] == [z_param, x_param]
        return False

    def side(sl: ast.AST) -> Optional[str]:
        """`:n` -> Z, `n:` -> X  with n = Z.size(-2)"""
        if not isinstance(sl, ast.Slice) or sl.step is not None:
            return None

        def is_n(e):
            return isinstance(e, ast.Call) and isinstance(e.func, ast.Attribute) and e.func.attr == "size" and chain(e.func.value) == z_param and [src(a) for a in e.args] == ["-2"]
        if sl.lower is None and sl.upper is not None and is_n(sl.upper):
            return "Z"
        if sl.upper is None and sl.lower is not None and is_n(sl.lower):
            return "X"
        return None

    def classify(e: ast.AST) -> Optional[str]:
        c = chain(e)
        if c in extra:
            return extra[c]
        if isinstance(e, ast.Name) and e.id in extra:
            return extra[e.id]
        if isinstance(e, ast.Subscript) and isinstance(e.slice, ast.Tuple):
            el = e.slice.elts
            base = e.value
            if isinstance(base, ast.Attribute) and base.attr in ("lazy_covariance_matrix", "covariance_matrix") and is_joint(base.value) and len(el) == 3 and isinstance(el[0], ast.Constant) and el[0].value is Ellipsis:
                r, cc = side(el[1]), side(el[2])
                if r and cc:
                    return "K" + r + cc
            if isinstance(base, ast.Attribute) and base.attr in ("mean", "loc") and is_joint(base.value) and len(el) == 2 and isinstance(el[0], ast.Constant) and el[0].value is Ellipsis:
                r = side(el[1])
                if r:
                    return "M" + r
        if isinstance(e, ast.Call) and chain(e.func) == "%s._cholesky_factor" % sn and e.args:
            inner = e.args[0]
            while isinstance(inner, ast.Call) and isinstance(inner.func, ast.Attribute) and inner.func.attr in ("add_jitter", "to_dense", "evaluate_kernel"):
                inner = inner.func.value
            if classify(inner) == "KZZ":
                return "L"
        return None
    return classify


def predictive_assembly(idx: ProgramIndex, rep: Report):
    from ..domains.linalg import LinEval, lin
    from ..symbolic import inline, walk_paths
    rep.rule("C14-7", "q(f) of the whitened strategy: mean = K_XZ L^-T m + mu_X, covariance = K_XX + K_XZ L^-T (S - P) L^-1 K_ZX with L = chol(K_ZZ), blocks of the joint prior on [Z; X] (non-commutative affine normal form)")
    V = idx.find_class("VariationalStrategy")
    fi = idx.method(V, "forward", own=True)
    ps = fi.params
    if len(ps) < 5:
        raise AnalysisError("anchor vanished: signature of VariationalStrategy.forward")
    xp, zp, mp, sp = ps[1], ps[2], ps[3], ps[4]
    classify = _joint_classifier(fi, zp, xp, {mp: "m", sp: "S", "%s.prior_distribution.lazy_covariance_matrix" % ps[0]: "P"})
    sym = {"KZZ", "KXX", "S", "P"}
    want_mean = lin({("KZX^T", "L^-T", "m"): 1, ("MX",): 1})
    want_cov_s = lin({("KXX",): 1, ("KZX^T", "L^-T", "S", "L^-1", "KZX"): 1, ("KZX^T", "L^-T", "P", "L^-1", "KZX"): -1})
    want_cov_0 = lin({("KXX",): 1, ("KZX^T", "L^-T", "P", "L^-1", "KZX"): -1})
    n = 0
    probs = []
    for path, seq in walk_paths(fi):
        s_none = None
        for s_ in path.steps:
            if s_.kind == "assume" and " ".join(src(s_.node).split()) in ("%s is not None" % sp, "%s is None" % sp):
                s_none = (s_.truth is False) if "is not" in src(s_.node) else bool(s_.truth)
        for st, env in seq:
            if not (isinstance(st, ast.Return) and st.value is not None):
                continue
            r = inline(st.value, env)
            if not (isinstance(r, ast.Call) and (chain(r.func) or "").split(".")[-1] == "MultivariateNormal" and len(r.args) >= 2):
                continue
            n += 1
            le = LinEval(classify, sym)
            m, c = le.ev(r.args[0]), le.ev(r.args[1])
            cond = "with S" if not s_none else "without S"
            if m is None or m != want_mean:
                probs.append("mean (%s) is `%s`, expected `%s`" % (cond, m.show() if m is not None else "not of matrix-affine shape", want_mean.show()))
            wc = want_cov_0 if s_none else want_cov_s
            if c is None or c != wc:
                probs.append("covariance (%s) is `%s`, expected `%s`" % (cond, c.show() if c is not None else "not of matrix-affine shape", wc.show()))
    rep.add("C14-7", "%s:VariationalStrategy.forward" % V.module.name, fi.where, n >= 2 and not probs,
            "on all %d returning paths: mean = KZX^T L^-T m + MX; covariance = KXX + KZX^T L^-T (S - P) L^-1 KZX" % n if n >= 2 and not probs else "; ".join(sorted(set(probs))[:3]) or "no returning path constructs the distribution", {"paths": n})


# ---- C14-8: mixing weights enter the covariance as w w^T -----------------------------------------------------------------
def symmetric_mixing(idx: ProgramIndex, rep: Report):
    """The multitask wrappers mix latent functions with coefficients w (a task mask, the LMC coefficients): the mean is
    sum_l w_l m_l, so the covariance is sum_l w_l w_l' C_l - the coefficients enter it as the *outer product* w w^T
    (RootLinearOperator(w[..., None]) = w w^T), with the same w and over the same dimension as in the mean.  A covariance multiplied
    by w alone is neither symmetric nor the covariance of the mixed function."""
    from ..symbolic import inline, walk_paths
    rep.rule("C14-8", "multitask wrappers weight the covariance by w w^T (Root of the same coefficients, summed over the same dimension) wherever the mean is weighted by w")
    n = 0
    for cname in ("IndependentMultitaskVariationalStrategy", "LMCVariationalStrategy"):
        C = idx.find_class(cname)
        fi = idx.method(C, "__call__", own=True)
        seen = set()
        for path, seq in walk_paths(fi):
            for st, env in seq:
                if not (isinstance(st, ast.Return) and st.value is not None):
                    continue
                r = inline(st.value, env)
                if not (isinstance(r, ast.Call) and (chain(r.func) or "").split(".")[-1] in ("MultivariateNormal", "MultitaskMultivariateNormal") and len(r.args) >= 2):
                    continue
                me, ce = r.args[0], r.args[1]
                # elementwise products with a latent covariance
                prods = []
                for x in ast.walk(ce):
                    pair = None
                    if isinstance(x, ast.BinOp) and isinstance(x.op, ast.Mult):
                        pair = (x.left, x.right)
                    elif isinstance(x, ast.Call) and isinstance(x.func, ast.Attribute) and x.func.attr in ("mul", "mul_") and len(x.args) == 1:
                        pair = (x.func.value, x.args[0])
                    elif isinstance(x, ast.Call) and (chain(x.func) or "").split(".")[-1] == "KroneckerProductLinearOperator" and len(x.args) == 2:
                        pair = (x.args[0], x.args[1])
                    if pair is None:
                        continue
                    for a_, b_ in (pair, pair[::-1]):
                        if isinstance(a_, ast.Attribute) and a_.attr in ("lazy_covariance_matrix", "covariance_matrix") or (isinstance(a_, ast.Call) and "lazy_covariance_matrix" in src(a_)[:200] and not "Root" in src(a_)[:40]):
                            prods.append((x, b_))
                            break
                for x, w in prods:
                    key = (st.lineno, ast.dump(w)[:200])
                    if key in seen:
                        continue
                    seen.add(key)
                    n += 1
                    inst = "%s:%s.__call__[covariance weight `%s`]" % (C.module.name, cname, " ".join(src(w).split())[:50])
                    where = "%s:%d" % (fi.module.relpath, st.lineno)
                    is_root = isinstance(w, ast.Call) and (chain(w.func) or "").split(".")[-1] == "RootLinearOperator" and w.args
                    is_scalar = isinstance(w, ast.Constant)
                    if is_scalar:
                        rep.add("C14-8", inst, where, True, "scalar factor", {})
                        continue
                    if not is_root:
                        rep.add("C14-8", inst, where, False, "the latent covariance is multiplied by `%s`, not by the outer product of the coefficients (RootLinearOperator(w[..., None]) = w w^T): the result is not symmetric and is not the covariance of the mixed function" % " ".join(src(w).split())[:60], {})
                        continue
                    # the coefficient vector inside Root(...) must be the one that weights the mean
                    wv = w.args[0]
                    def new_axis(sub) -> bool:
                        sl = sub.slice
                        return isinstance(sl, ast.Tuple) and len(sl.elts) == 2 and isinstance(sl.elts[0], ast.Constant) and sl.elts[0].value is Ellipsis and isinstance(sl.elts[1], ast.Constant) and sl.elts[1].value is None
                    # only the trailing new axis of Root(w[..., None]) / Root(w.unsqueeze(-1)) is looked through
                    while (isinstance(wv, ast.Subscript) and new_axis(wv)) or (isinstance(wv, ast.Call) and isinstance(wv.func, ast.Attribute) and wv.func.attr in ("unsqueeze",)):
                        wv = wv.value if isinstance(wv, ast.Subscript) else wv.func.value
                    in_mean = ast.dump(wv) in ast.dump(me)
                    rep.add("C14-8", inst, where, in_mean, "covariance weighted by w w^T with the coefficients that weight the mean" if in_mean else
                            "the covariance is weighted by the outer product of `%s`, which is not what weights the mean" % " ".join(src(wv).split())[:50], {})
    rep.floor("C14-8", "covariance mixing sites", n, 3)


# ---- C14-9 ---------------------------------------------------------------------------------------------------------
def prior_jitter(idx: ProgramIndex, rep: Report):
    """KL(q(u) || p(u)) and the predictive q(f) have to speak about the same p(u) = N(m_Z, K_ZZ + jitter I).  A strategy whose
    prior_distribution and whose forward each regularise K_ZZ must add the same jitter in both: otherwise q(u) = p(u) does not give
    KL = 0 / q(f) = prior, and the KL differs between training mode (where forward stores its own p(u) in the memo) and evaluation mode."""
    rep.rule("C14-9", "the p(u) of the KL term and the p(u) that forward conditions on regularise K_ZZ with the same jitter")
    vs = idx.find_class("_VariationalStrategy")
    from ..symbolic import inline, walk_paths
    n = 0

    def jitters(fi, recv_test):
        """jitter arguments of add_jitter calls whose receiver (followed through local bindings, flow-insensitively) passes recv_test"""
        binds = {}
        for a in ast.walk(fi.node):
            if isinstance(a, ast.Assign) and len(a.targets) == 1 and isinstance(a.targets[0], ast.Name):
                binds.setdefault(a.targets[0].id, []).append(a.value)

        def reaches(e, depth=0, seen=None):
            seen = seen or set()
            if recv_test(e):
                return True
            for x in ast.walk(e):
                if isinstance(x, ast.Name) and x.id in binds and x.id not in seen and depth < 5:
                    seen.add(x.id)
                    if any(reaches(v, depth + 1, seen) for v in binds[x.id]):
                        return True
            return False

        def resolve(a):
            if isinstance(a, ast.Name) and a.id in binds and len(binds[a.id]) == 1:
                return resolve(binds[a.id][0])
            return a

        out = set()
        for c in (x for x in ast.walk(fi.node) if isinstance(x, ast.Call) and isinstance(x.func, ast.Attribute) and x.func.attr == "add_jitter"):
            if reaches(c.func.value):
                a = c.args[0] if c.args else next((k.value for k in c.keywords if k.arg == "jitter_val"), None)
                out.add("<add_jitter default>" if a is None else " ".join(src(resolve(a)).split()))
        return out

    def is_zz_block(e):
        # K[..., :m, :m] of the joint covariance (possibly evaluated first)
        for x in ast.walk(e):
            if isinstance(x, ast.Subscript) and isinstance(x.slice, ast.Tuple) and len(x.slice.elts) >= 2:
                a, b = x.slice.elts[-2], x.slice.elts[-1]
                if isinstance(a, ast.Slice) and isinstance(b, ast.Slice) and a.lower is None and b.lower is None and a.upper is not None and b.upper is not None and src(a.upper) == src(b.upper):
                    return True
        return False

    def is_prior_cov(e):
        t = src(e)
        return "lazy_covariance_matrix" in t or "covariance_matrix" in t

    for cls in sorted(idx.subclasses(vs, strict=True), key=lambda c: c.qualname):
        fwd = cls.methods.get("forward")
        pd = cls.lookup("prior_distribution")
        if fwd is None or pd is None or not pd.module.name.startswith(idx.package):
            continue
        jf = jitters(fwd, is_zz_block)
        jp = jitters(pd, is_prior_cov)
        if not jf or not jp:
            continue  # whitened strategies (identity prior) or interpolation strategies (no K_ZZ in forward)
        n += 1
        ok = jf == jp
        rep.add("C14-9", "%s:%s[prior_distribution vs forward]" % (cls.module.name, cls.qualname), pd.where, ok,
                "both regularise K_ZZ with %s" % sorted(jf) if ok else
                "prior_distribution adds %s to K_ZZ but forward adds %s: the KL is taken against another p(u) than the one q(f) is conditioned on (and training mode, which memoises forward's p(u), disagrees with evaluation mode)" % (sorted(jp), sorted(jf)), {"forward": sorted(jf), "prior_distribution": sorted(jp)})
    rep.floor("C14-9", "strategies regularising K_ZZ in both places", n, 1)


# ---- C14-10 --------------------------------------------------------------------------------------------------------
def point_mass_terms(idx: ProgramIndex, rep: Report):
    """`kl_divergence(Delta(m), p)` is registered as -log p(m): a log density, not a divergence.  A strategy that *builds* a point mass
    from the variational mean and adds its "KL" to a genuine KL term (KL(Delta(m) || p) + KL(N(0, S) || p)) therefore reports
    KL(N(m, S) || p) plus the normalising constant of p ((M/2) log 2 pi for a whitened prior) unless it removes that constant again."""
    rep.rule("C14-10", "a KL assembled from parts contains no point-mass term built from the variational mean (its value is a log density and adds the prior's normalising constant)")
    vs = idx.find_class("_VariationalStrategy")
    n = 0
    for cls in sorted(idx.subclasses(vs), key=lambda c: c.qualname):
        kl = cls.methods.get("kl_divergence")
        if kl is None:
            continue
        n += 1
        deltas = {a.targets[0].id for a in ast.walk(kl.node) if isinstance(a, ast.Assign) and len(a.targets) == 1 and isinstance(a.targets[0], ast.Name)
                  and isinstance(a.value, ast.Call) and (chain(a.value.func) or "").split(".")[-1] == "Delta"}
        probs = []
        for c in calls_in(kl.node):
            cn = chain(c.func) or ""
            if cn.split(".")[-1] == "kl_divergence" and len(c.args) == 2 and not cn.startswith("self") and not cn.startswith("super"):
                a0 = c.args[0]
                if (isinstance(a0, ast.Name) and a0.id in deltas) or (isinstance(a0, ast.Call) and (chain(a0.func) or "").split(".")[-1] == "Delta"):
                    compensated = any("math.pi" in src(x) or "log(2" in src(x) for x in ast.walk(kl.node) if isinstance(x, (ast.BinOp, ast.Call)))
                    if not compensated:
                        probs.append("`%s` (line %d) adds -log p(mean) as if it were a divergence: the total exceeds KL(N(m, S) || p) by the prior's normalising constant, so q(u) = p(u) does not give KL = 0" % (" ".join(src(c).split())[:60], c.lineno))
        rep.add("C14-10", "%s:%s.kl_divergence" % (cls.module.name, cls.qualname), kl.where, not probs, "no point-mass term" if not probs else "; ".join(probs), {})
    rep.floor("C14-10", "kl_divergence implementations of strategies", n, 4)


# ---- C14-11 --------------------------------------------------------------------------------------------------------
def decoupled_slices(idx: ProgramIndex, rep: Report):
    """BatchDecoupledVariationalStrategy stacks two sets of inducing points (and kernel hyper-parameters) along one batch dimension:
    slice 0 parameterises the predictive mean, slice 1 the predictive covariance.  On every returning path of forward the mean handed to
    the result must be built from `.select(<decoupling dim>, 0)` slices only and the covariance from `.select(<decoupling dim>, 1)` slices
    only (inlined expressions): a mean computed from slice 1 is the mean of an ordinary coupled SVGP on the covariance's inducing points."""
    from ..symbolic import inline, walk_paths
    rep.rule("C14-11", "batch-decoupled strategy: the predictive mean is assembled from slice 0 and the predictive covariance from slice 1 of the decoupling dimension, on every path")
    cls = idx.find_class("BatchDecoupledVariationalStrategy")
    fi = idx.method(cls, "forward", own=True)
    n = 0
    probs = set()
    for path, seq in walk_paths(fi):
        if path.outcome != "return" or path.end is None or getattr(path.end, "value", None) is None:
            continue
        env = {}
        for st, e_ in seq:
            if st is path.end:
                env = e_
        r = inline(path.end.value, env)
        if not (isinstance(r, ast.Call) and (chain(r.func) or "").split(".")[-1] == "MultivariateNormal" and len(r.args) >= 2):
            continue
        n += 1
        for what, e, want in (("mean", r.args[0], 0), ("covariance", r.args[1], 1)):
            sel = set()
            for c in ast.walk(e):
                if isinstance(c, ast.Call) and isinstance(c.func, ast.Attribute) and c.func.attr == "select" and len(c.args) == 2 and "mean_var_batch_dim" in src(c.args[0]):
                    k = c.args[1]
                    sel.add(k.value if isinstance(k, ast.Constant) else src(k))
            if not sel:
                probs.add("the predictive %s is not assembled from a slice of the decoupling dimension" % what)
            elif sel != {want}:
                probs.add("the predictive %s uses slice(s) %s of the decoupling dimension, expected %d only" % (what, sorted(sel, key=str), want))
    rep.add("C14-11", "%s:BatchDecoupledVariationalStrategy.forward[slices]" % cls.module.name, fi.where, n > 0 and not probs,
            "mean from slice 0, covariance from slice 1 on %d returning path(s)" % n if n > 0 and not probs else "; ".join(sorted(probs)) or "no constructing return found", {})


# ---- C14-12 --------------------------------------------------------------------------------------------------------
# strategies outside C14's quantifier (standard, unwhitened, batch-decoupled, orthogonally decoupled, CIQ, grid-interpolation, LMC, independent multitask)
NOT_IN_C14 = {"NNVariationalStrategy": "nearest-neighbour strategy (VNNGP): not in the property's list; test points are predicted independently by construction"}


def _strategies(idx: ProgramIndex) -> List[ClassInfo]:
    base = idx.find_class("_VariationalStrategy")
    return sorted([c for c in idx.subclasses(base) if c.name not in NOT_IN_C14], key=lambda c: c.qualname)


def _only_raises(fi: FuncInfo) -> bool:
    body = body_without_docstring(fi.node)
    return len(body) == 1 and isinstance(body[0], ast.Raise)


def pseudo_targets(idx: ProgramIndex, rep: Report):
    """_VariationalStrategy.amortized_exact_gp builds the exact GP over the inducing points from `pseudo_points` and ADDS the prior mean
    mean_module(Z) to the pseudo targets.  So pseudo_points must work with the variational mean relative to the prior mean.  Whether a
    strategy's variational mean is relative (whitened: u = mu_Z + L e, forward uses inducing_values as they are) or absolute
    (unwhitened: forward subtracts the prior mean of Z from inducing_values) is read off its own forward; pseudo_points must agree:
    absolute mean -> the prior mean is subtracted before the pseudo targets are formed, relative mean -> it is not."""
    rep.rule("C14-12", "pseudo targets are relative to the prior mean that amortized_exact_gp adds back: a strategy whose forward subtracts the prior mean from the inducing values subtracts it from the variational mean in pseudo_points too (and a whitened strategy does not)")
    base = idx.find_class("_VariationalStrategy")
    am = idx.method(base, "amortized_exact_gp", own=True)
    adds = any(isinstance(a, ast.Assign) and "pseudo_target_mean" in src(a.targets[0]) and isinstance(a.value, ast.BinOp) and isinstance(a.value.op, ast.Add) and "mean_module(" in src(a.value)
               for a in ast.walk(am.node))
    if not adds:
        raise AnalysisError("C14-12: _VariationalStrategy.amortized_exact_gp no longer adds mean_module(pseudo_inputs) to the pseudo targets; the rule's premise is gone")
    n = 0

    def subtracted_from(fn: ast.AST, is_target) -> List[ast.AST]:
        out = []
        for x in ast.walk(fn):
            if isinstance(x, ast.BinOp) and isinstance(x.op, ast.Sub) and is_target(x.left):
                out.append(x.right)
            if isinstance(x, ast.Call) and isinstance(x.func, ast.Attribute) and x.func.attr in ("sub", "sub_") and len(x.args) == 1 and is_target(x.func.value):
                out.append(x.args[0])
        return out
    for cls in _strategies(idx):
        pp = cls.methods.get("pseudo_points")
        fw = cls.lookup("forward")
        if pp is None or fw is None or len(fw.params) < 4 or _only_raises(pp) or _only_raises(fw):
            continue
        n += 1
        iv = fw.params[3]
        absolute = bool(subtracted_from(fw.node, lambda e: isinstance(e, ast.Name) and e.id == iv))

        def is_var_mean(e):
            t = src(e).replace(" ", "")
            return t in ("self.variational_distribution.mean", "self._variational_distribution.variational_mean", "self._variational_distribution().mean")
        subs = subtracted_from(pp.node, is_var_mean)
        def resolved(r):
            if isinstance(r, ast.Name):
                vs = [a.value for a in ast.walk(pp.node) if isinstance(a, ast.Assign) and any(isinstance(t, ast.Name) and t.id == r.id for t in a.targets)]
                return " ; ".join(src(v) for v in vs)
            return src(r)
        prior_sub = [r for r in subs if any(k in resolved(r) for k in ("prior_distribution", "mean_module", "model.forward", "model("))]
        reads = [x for x in ast.walk(pp.node) if isinstance(x, ast.Attribute) and is_var_mean(x)]
        if not reads:
            rep.add("C14-12", "%s:%s.pseudo_points" % (cls.module.name, cls.qualname), pp.where, False, "pseudo_points does not read the variational mean in a form the rule understands", {})
            continue
        ok = (bool(prior_sub) and len(subs) == len(reads)) if absolute else not subs
        rep.add("C14-12", "%s:%s.pseudo_points" % (cls.module.name, cls.qualname), pp.where, ok,
                ("forward subtracts the prior mean from the inducing values (absolute mean); pseudo_points subtracts it from the variational mean" if absolute else
                 "forward uses the inducing values as they are (mean relative to the prior); pseudo_points does too") if ok else
                ("forward subtracts the prior mean of the inducing points from the inducing values, i.e. the variational mean is the mean of q(u) itself, but pseudo_points forms the pseudo targets from it without subtracting the prior mean - and amortized_exact_gp adds mean_module(Z) on top: the prior mean is counted twice" if absolute else
                 "forward treats the variational mean as relative to the prior mean, but pseudo_points subtracts `%s` from it" % src(subs[0])[:50]), {})
    rep.floor("C14-12", "strategies with pseudo points", n, 2)


# ---- C14-13 --------------------------------------------------------------------------------------------------------
def _implies_training(test: ast.AST, truth: bool) -> bool:
    """does `test == truth` imply self.training?"""
    if isinstance(test, ast.Attribute) and chain(test) == "self.training":
        return truth
    if isinstance(test, ast.UnaryOp) and isinstance(test.op, ast.Not):
        return _implies_training(test.operand, not truth)
    if isinstance(test, ast.BoolOp) and isinstance(test.op, ast.And) and truth:
        return any(_implies_training(v, True) for v in test.values)
    if isinstance(test, ast.BoolOp) and isinstance(test.op, ast.Or) and not truth:
        return any(_implies_training(v, False) for v in test.values)
    return False


def full_covariance_in_eval(idx: ProgramIndex, rep: Report):
    """'full covariance in evaluation mode': a forward may return a covariance whose data-data part is only a diagonal (DiagLinearOperator
    of variances) on paths that have tested self.training to be true (or skip_posterior_variances to be on)."""
    from ..symbolic import inline, walk_paths
    rep.rule("C14-13", "a variational strategy returns a diagonal-only covariance (DiagLinearOperator of predictive variances) only on paths that tested self.training (the evaluation-mode output carries the full covariance)")
    n = 0
    for cls in _strategies(idx):
        fi = cls.methods.get("forward")
        if fi is None:
            continue
        diag_names = set()
        for a in ast.walk(fi.node):
            if isinstance(a, ast.Assign) and isinstance(a.value, ast.Call) and (chain(a.value.func) or "").split(".")[-1] == "DiagLinearOperator":
                for t in a.targets:
                    if isinstance(t, ast.Name):
                        diag_names.add(t.id)
        n += 1
        if not diag_names:
            rep.add("C14-13", "%s:%s.forward[diagonal covariance]" % (cls.module.name, cls.qualname), fi.where, True, "forward builds no DiagLinearOperator", {}, trivial=True)
            continue
        bad = set()
        npaths = 0

        def kind(e, env):
            """'diag' = the data-data part is only a diagonal"""
            if isinstance(e, ast.Name):
                return env.get(e.id, "other")
            if isinstance(e, ast.Call):
                fn = (chain(e.func) or "").split(".")[-1]
                if fn == "DiagLinearOperator":
                    return "diag"
                if fn == "RootLinearOperator":
                    return "root"
                if fn in ("PsdSumLinearOperator", "SumLinearOperator"):
                    ks = [kind(a, env) for a in e.args]
                    return "diag" if "diag" in ks and all(k in ("diag", "root") for k in ks) else "other"
                if isinstance(e.func, ast.Attribute) and e.func.attr in ("add_jitter",):
                    return kind(e.func.value, env)
            return "other"
        from ..cfg import enumerate_paths
        for path in enumerate_paths(body_without_docstring(fi.node), limit=20000):
            if path.outcome != "return" or path.end is None or getattr(path.end, "value", None) is None:
                continue
            env: Dict[str, str] = {}
            for s_ in path.steps:
                if s_.kind in ("stmt", "partial") and isinstance(s_.node, ast.Assign):
                    k = kind(s_.node.value, env)
                    for t in s_.node.targets:
                        if isinstance(t, ast.Name):
                            env[t.id] = k
            r = path.end.value
            if isinstance(r, ast.Name):
                continue
            if not (isinstance(r, ast.Call) and (chain(r.func) or "").split(".")[-1] == "MultivariateNormal" and len(r.args) >= 2):
                continue
            npaths += 1
            if kind(r.args[1], env) != "diag":
                continue
            tested = any(s_.kind == "assume" and _implies_training(s_.node, s_.truth) for s_ in path.steps)
            if not tested:
                conds = [("%s=%s" % (c, t)) for c, t in path.condition() if "training" in c or "_ngd" in c]
                bad.add(", ".join(conds) or "unconditionally")
        rep.add("C14-13", "%s:%s.forward[diagonal covariance]" % (cls.module.name, cls.qualname), fi.where, not bad,
                "every path that returns a diagonal-only covariance tested self.training (%d returning paths)" % npaths if not bad else
                "forward returns a diagonal-only covariance on a path that never tested self.training (%s): in evaluation mode all cross-covariances between test points are 0, the closed form has K_xx' - ... off the diagonal" % "; ".join(sorted(bad))[:120], {})
    rep.floor("C14-13", "strategy forwards inspected for diagonal-only covariances", n, 6)


# ---- C14-14 --------------------------------------------------------------------------------------------------------
def wrapped_output_blocks(idx: ProgramIndex, rep: Report):
    """A strategy that evaluates another strategy on [x; Z] and slices OFF-DIAGONAL blocks out of the returned covariance needs the full
    joint covariance.  Strategies that may be wrapped must then not return a diagonal-only data covariance in training mode (C14-13 lets
    them), or the wrapper has to reject them."""
    rep.rule("C14-14", "a strategy that slices off-diagonal blocks out of a wrapped strategy's output only wraps strategies that return the full covariance in training mode too (or rejects the others)")
    diag_in_training = []
    for cls in _strategies(idx):
        fi = cls.methods.get("forward")
        if fi is None:
            continue
        for node in ast.walk(fi.node):
            if isinstance(node, ast.If) and "self.training" in src(node.test) and not src(node.test).strip().startswith("not "):
                if any(isinstance(c, ast.Call) and (chain(c.func) or "").split(".")[-1] == "DiagLinearOperator" for b in node.body for c in ast.walk(b)):
                    diag_in_training.append(cls)
                    break
    n = 0
    for cls in _strategies(idx):
        fi = cls.methods.get("forward")
        if fi is None:
            continue
        # the wrapped strategy's output: self.model(<cat of x and inducing points>) where self.model is called, not .forward (prior)
        outs = set()
        for a in ast.walk(fi.node):
            if isinstance(a, ast.Assign) and isinstance(a.value, ast.Call) and chain(a.value.func) == "self.model" and a.value.args and "cat" in src(a.value.args[0]):
                outs.update(t.id for t in a.targets if isinstance(t, ast.Name))
        if not outs:
            continue
        covs = set()
        for a in ast.walk(fi.node):
            if isinstance(a, ast.Assign) and isinstance(a.value, ast.Attribute) and isinstance(a.value.value, ast.Name) and a.value.value.id in outs and "covar" in a.value.attr:
                covs.update(t.id for t in a.targets if isinstance(t, ast.Name))
        cross = []
        for x in ast.walk(fi.node):
            if isinstance(x, ast.Subscript) and isinstance(x.value, ast.Name) and x.value.id in covs and isinstance(x.slice, ast.Tuple) and len(x.slice.elts) >= 2:
                r_, c_ = x.slice.elts[-2], x.slice.elts[-1]
                if isinstance(r_, ast.Slice) and isinstance(c_, ast.Slice) and src(r_) != src(c_):
                    cross.append(x)
        if not cross:
            continue
        n += 1
        rejects = any(isinstance(x, ast.Raise) for x in ast.walk(fi.node) if False)
        init = cls.lookup("__init__")
        guarded = init is not None and any(isinstance(c, ast.Call) and isinstance(c.func, ast.Name) and c.func.id == "isinstance" and any(d.name in src(c) for d in diag_in_training) for c in ast.walk(init.node))
        for d in diag_in_training or [None]:
            ok = d is None or guarded
            rep.add("C14-14", "%s:%s.forward[off-diagonal block of the wrapped output]%s" % (cls.module.name, cls.qualname, "" if d is None else " <- " + d.qualname), fi.where, ok,
                    "no strategy returns a diagonal-only covariance in training mode" if d is None else ("the constructor rejects %s" % d.qualname) if ok else
                    "`%s` takes an off-diagonal block of the wrapped strategy's output, but %s.forward returns only the variances of the data part in training mode: the block loses K_xg - K_xb K_bb^-1 K_bg and the training-mode mean (and the prior block used by kl_divergence) is wrong; nothing restricts the wrapped strategy" % (" ".join(src(cross[0]).split())[:60], d.qualname), {})
    rep.floor("C14-14", "wrappers that slice off-diagonal blocks", n, 1)


# ---- C14-2 (components) --------------------------------------------------------------------------------------------
def component_kl_reduced(idx: ProgramIndex, rep: Report):
    """A strategy that repeats its prior into one batch element per component (prior_distribution ... .repeat(self.<n>, ...)) and whose
    forward sums the components under a flag has one KL per component in the inherited kl_divergence: the flag that removes the component
    dimension from q(f) has to remove it from the KL as well."""
    rep.rule("C14-2", "wrapper strategies sum the base KL over their configured task/latent dimension")
    n = 0
    for cls in _strategies(idx):
        pd = cls.methods.get("prior_distribution")
        fw = cls.methods.get("forward")
        if pd is None or fw is None:
            continue
        if not any(isinstance(c, ast.Call) and isinstance(c.func, ast.Attribute) and c.func.attr == "repeat" for c in ast.walk(pd.node)):
            continue
        flags = {x.attr for i in ast.walk(fw.node) if isinstance(i, ast.If) for x in ast.walk(i.test) if isinstance(x, ast.Attribute) and chain(x.value) == fw.params[0] and "sum" in x.attr}
        sums = any(isinstance(c, ast.Call) and isinstance(c.func, ast.Attribute) and c.func.attr == "sum" for i in ast.walk(fw.node) if isinstance(i, ast.If) for c in ast.walk(i))
        if not flags or not sums:
            continue
        n += 1
        kl = cls.methods.get("kl_divergence")
        ok = kl is not None and any(f in src(kl.node) for f in flags) and any(isinstance(c, ast.Call) and isinstance(c.func, ast.Attribute) and c.func.attr == "sum" for c in ast.walk(kl.node))
        rep.add("C14-2", "%s:%s.kl_divergence[components]" % (cls.module.name, cls.qualname), (kl or pd).where, ok,
                "the KL is summed over the components under the flag that sums q(f) (self.%s)" % sorted(flags)[0] if ok else
                "prior_distribution repeats the prior into one batch element per component and forward sums the components under self.%s, but the class inherits kl_divergence: one KL per component reaches the objective, which comes out as a vector none of whose reductions is the ELBO" % sorted(flags)[0], {})
    rep.floor("C14-2", "strategies with a component batch", n, 1)


# ---- C14-15 --------------------------------------------------------------------------------------------------------
def _posterior_calls(fi: FuncInfo, e: ast.AST) -> List[ast.Call]:
    """calls `self.model(...)` in the def-use closure of e inside fi"""
    sn = fi.params[0]
    out, seen, work = [], set(), [e]
    while work:
        x = work.pop()
        for n in ast.walk(x):
            if isinstance(n, ast.Call) and chain(n.func) == "%s.model" % sn:
                out.append(n)
            if isinstance(n, ast.Name) and n.id not in seen and n.id != sn:
                seen.add(n.id)
                for a in ast.walk(fi.node):
                    if isinstance(a, ast.Assign):
                        for t in a.targets:
                            ts = t.elts if isinstance(t, ast.Tuple) else [t]
                            if any(isinstance(q, ast.Name) and q.id == n.id for q in ts):
                                work.append(a.value)
    return out


def prior_from_prior_mode(idx: ProgramIndex, rep: Report):
    """What a strategy memoises (or returns) as its prior distribution p(u) has to come from a prior-mode evaluation of the model
    (`self.model.forward(...)`, kernel and mean modules, constants).  `self.model(...)` on an ApproximateGP is the POSTERIOR q(f) of that
    model: a "prior" taken from it carries the variational covariance S, the KL assembled with it is not a KL against the prior - and the
    ELBO is not a lower bound."""
    rep.rule("C14-15", "the distribution a strategy stores as prior_distribution comes from a prior-mode evaluation, never from `self.model(...)` (the posterior of the wrapped model)")
    n = 0
    for cls in _strategies(idx):
        for name, m in sorted(cls.methods.items()):
            sites = []
            if name == "prior_distribution":
                sites += [r.value for r in ast.walk(m.node) if isinstance(r, ast.Return) and r.value is not None]
            for c in calls_in(m.node):
                if isinstance(c.func, ast.Name) and c.func.id == "add_to_cache" and len(c.args) >= 3 and isinstance(c.args[1], ast.Constant) and c.args[1].value == "prior_distribution_memo":
                    sites.append(c.args[2])
            for e in sites:
                n += 1
                roots = _closure_roots(m, e)
                post = _posterior_calls(m, e)
                ok = not post
                rep.add("C14-15", "%s:%s.%s[prior distribution]" % (cls.module.name, cls.qualname, name), m.where, ok,
                        "derives from %s" % (", ".join(sorted(roots))[:80] or "constants") if ok else
                        "the distribution stored as the prior p(u) is cut out of `self.model(...)`, the posterior of the wrapped variational model: its covariance contains S. With q(f) set to the exact posterior N x ELBO is -19.271 against an exact log marginal likelihood of -20.480 (excess 0.5 m^T S (I+S)^-1 m): the reported ELBO is not a lower bound", {})
    rep.floor("C14-15", "prior distributions of the strategies", n, 6)


# ---- C14-16 --------------------------------------------------------------------------------------------------------
def one_hot_axis_to_task_dim(idx: ProgramIndex, rep: Report):
    """one_hot(task_indices) appends the task axis as the LAST axis; before it can weight the per-task distribution it has to sit at the
    position of the task dimension.  The permutation that does that is the inverse of the familiar one that moves an axis to the end; the
    two coincide only when the task dimension is the last batch dimension.  The permutation expression is evaluated for every
    (number of batch dimensions, task position) with up to four batch dimensions - integer arithmetic on the index expression only."""
    rep.rule("C14-16", "the one-hot task mask of the independent multitask strategy is permuted so that its last (task) axis lands at the task dimension, for every number of batch dimensions and every task position")
    C = idx.find_class("IndependentMultitaskVariationalStrategy")
    fi = idx.method(C, "__call__", own=True)
    perms = [c for c in calls_in(fi.node) if isinstance(c.func, ast.Attribute) and c.func.attr == "permute" and "mask" in src(c.func.value)]
    if len(perms) != 1:
        raise AnalysisError("C14-16: expected exactly one permutation of the task mask in IndependentMultitaskVariationalStrategy.__call__ (anchor)")
    call = perms[0]
    names = sorted({x.id for a in call.args for x in ast.walk(a) if isinstance(x, ast.Name)} - {"range"})

    def ev(e, env):
        if isinstance(e, ast.Constant):
            return e.value
        if isinstance(e, ast.Name):
            return env[e.id]
        if isinstance(e, ast.BinOp) and isinstance(e.op, (ast.Add, ast.Sub)):
            a, b = ev(e.left, env), ev(e.right, env)
            return a + b if isinstance(e.op, ast.Add) else a - b
        if isinstance(e, ast.UnaryOp) and isinstance(e.op, ast.USub):
            return -ev(e.operand, env)
        if isinstance(e, ast.Call) and isinstance(e.func, ast.Name) and e.func.id == "range":
            return list(range(*[ev(a, env) for a in e.args]))
        raise AnalysisError("C14-16: unknown form in the permutation: %s" % src(e))
    bad = []
    cases = 0
    # which local stands for what: the number of batch dimensions and the (non-negative) task position
    nb_name = td_name = None
    for a in ast.walk(fi.node):
        if isinstance(a, ast.Assign) and isinstance(a.targets[0], ast.Name):
            if isinstance(a.value, ast.Call) and isinstance(a.value.func, ast.Name) and a.value.func.id == "len" and "batch_shape" in src(a.value):
                nb_name = a.targets[0].id
            elif isinstance(a.value, ast.BinOp) and isinstance(a.value.op, ast.Add) and "task_dim" in src(a.value) and nb_name is not None and nb_name in src(a.value):
                td_name = a.targets[0].id
    if nb_name is None or td_name is None or not set(names) <= {nb_name, td_name}:
        raise AnalysisError("C14-16: the permutation is not an expression in the number of batch dimensions and the task position: %s" % names)
    for nb in range(1, 5):
        for td in range(0, nb):
            env = {nb_name: nb, td_name: td}
            perm = []
            for a in call.args:
                v = ev(a.value, env) if isinstance(a, ast.Starred) else ev(a, env)
                perm += v if isinstance(v, list) else [v]
            cases += 1
            # input axes: 0 .. nb-2 batch axes without the task axis, nb-1 the data axis, nb the one-hot axis  (nb + 1 axes)
            want = list(range(0, td)) + [nb] + list(range(td, nb))
            if perm != want:
                bad.append("%d batch dims, task position %d: permutation %s, needed %s" % (nb, td, perm, want))
    rep.add("C14-16", "%s:IndependentMultitaskVariationalStrategy.__call__[task mask]" % C.module.name, "%s:%d" % (fi.module.relpath, call.lineno), not bad,
            "the one-hot axis lands at the task position in all %d cases" % cases if not bad else
            "`%s` does not bring the one-hot axis to the task position: %s - the mask then weights the wrong axis: silently wrong mean / covariance when the sizes coincide, an error otherwise" % (" ".join(src(call).split())[:80], "; ".join(bad[:2])), {})
    rep.floor("C14-16", "task mask permutations", 1, 1)


# ---- C14-17 --------------------------------------------------------------------------------------------------------
def reshape_of_expanded_rows(idx: ProgramIndex, rep: Report):
    """GridInterpolationVariationalStrategy._compute_grid may EXPAND the interpolation rows to the batch shape of the variational
    distribution.  A subclass that reshapes what it gets back with a free `-1` (view(num_dim, num_data, -1)) lets the -1 absorb that
    expansion: the rows of all components are interleaved into each component."""
    rep.rule("C14-17", "a subclass of the grid-interpolation strategy does not reshape the (possibly batch-expanded) result of the parent's _compute_grid with a free -1")
    P = idx.find_class("GridInterpolationVariationalStrategy")
    pg = idx.method(P, "_compute_grid", own=True)
    expands = any(isinstance(c.func, ast.Attribute) and c.func.attr in ("expand", "repeat") for c in calls_in(pg.node))
    n = 0
    for cls in sorted(idx.subclasses(P, strict=True), key=lambda c: c.qualname):
        m = cls.methods.get("_compute_grid")
        if m is None:
            continue
        n += 1
        from_parent = set()
        for a in ast.walk(m.node):
            if isinstance(a, ast.Assign) and isinstance(a.value, ast.Call) and isinstance(a.value.func, ast.Attribute) and a.value.func.attr == "_compute_grid" and "super" in src(a.value.func.value):
                for t in a.targets:
                    from_parent |= {x.id for x in ast.walk(t) if isinstance(x, ast.Name)}
        free = [c for c in calls_in(m.node) if isinstance(c.func, ast.Attribute) and c.func.attr in ("view", "reshape") and isinstance(c.func.value, ast.Name) and c.func.value.id in from_parent
                and any(isinstance(a, ast.UnaryOp) and isinstance(a.op, ast.USub) and isinstance(a.operand, ast.Constant) and a.operand.value == 1 for a in c.args)]
        ok = not (expands and free)
        rep.add("C14-17", "%s:%s._compute_grid" % (cls.module.name, cls.qualname), m.where, ok,
                "the rows are not taken from the parent's (batch-expanding) _compute_grid, or are reshaped with explicit sizes" if ok else
                "`%s` reshapes the result of the parent's _compute_grid with a free -1, and the parent expands the rows to the variational batch shape: (D*n, 4) becomes (D, D*n, 4) and then (D, n, 4*D): every additive component interpolates with the interleaved rows of all components" % " ".join(src(free[0]).split())[:60], {})
    rep.floor("C14-17", "subclasses that override _compute_grid", n, 1)


# ---- C14-18 --------------------------------------------------------------------------------------------------------
def preprocessing_hook_not_skipped(idx: ProgramIndex, rep: Report):
    """_VariationalStrategy.__call__ brings x and the inducing points to one batch shape through the hook `_expand_inputs`.  The base
    implementation only broadcasts (idempotent), so skipping it when the two batch shapes already agree is an optimisation.  A
    subclass whose override does more than broadcasting - BatchDecoupledVariationalStrategy inserts the mean / variance axis into x
    there - is wrong whenever the hook is skipped: its inducing points are stored stacked as [2, M, D], so a user batch of exactly two
    input sets has 'the same batch shape' and is then read as (mean copy, variance copy)."""
    rep.rule("C14-18", "the pre-processing hook _expand_inputs runs on every call (not only when the batch shapes differ) unless every override only broadcasts: an override that inserts an axis must never be skipped")
    from .c10 import _tests_around
    B = idx.find_class("_VariationalStrategy")
    call = B.methods.get("__call__")
    sites = [c for c in calls_in(call.node) if isinstance(c.func, ast.Attribute) and c.func.attr == "_expand_inputs"] if call else []
    if not sites:
        raise AnalysisError("C14-18: _VariationalStrategy.__call__ no longer calls self._expand_inputs (anchor)")
    guards = [t for t, pos in _tests_around(call.node, sites[0])]
    conditional = [src(t) for t in guards if "shape" in src(t) or "size" in src(t)]
    RESHAPING = {"unsqueeze", "stack", "cat", "reshape", "view", "repeat", "squeeze", "transpose", "permute"}
    n = 0
    for cls in sorted(idx.subclasses(B), key=lambda c: c.qualname):
        ov = cls.methods.get("_expand_inputs")
        if ov is None or cls is B:
            continue
        n += 1
        ops = sorted({c.func.attr for c in calls_in(ov.node) if isinstance(c.func, ast.Attribute) and c.func.attr in RESHAPING} | {(chain(c.func) or "").split(".")[-1] for c in calls_in(ov.node) if (chain(c.func) or "").startswith("torch.") and (chain(c.func) or "").split(".")[-1] in RESHAPING})
        ok = not conditional or not ops
        rep.add("C14-18", "%s:%s._expand_inputs[not skipped]" % (cls.module.name, cls.qualname), ov.where, ok,
                ("the hook runs on every call" if not conditional else "the override only broadcasts") if ok else
                "the override re-shapes x (%s), but _VariationalStrategy.__call__ calls the hook only under `%s`: when the user's batch shape happens to equal the stored inducing batch shape the axis is not inserted - BatchDecoupledVariationalStrategy on x of shape [2, N, D] returns q(f) of shape [N] with the mean of x[0] and the covariance of x[1]" % (", ".join(ops), conditional[0]), {})
    rep.floor("C14-18", "overrides of _expand_inputs", n, 1)


# ---- C14-19 --------------------------------------------------------------------------------------------------------
def conditional_reduction_on_every_path(idx: ProgramIndex, rep: Report):
    """q(f) has covariance Kxx - Kxz Kzz^-1 (Kzz - S) Kzz^-1 Kzx: whatever q(u) is - also a point mass, S = 0 - the reduction
    Kxz Kzz^-1 Kzx of the prior conditional is part of it.  The strategies that slice the joint prior covariance into its blocks take
    Kzx as `full_covar[..., :num_induc, num_induc:]`.  The clause: on every path through such a `forward`, the covariance handed to
    the returned distribution depends (assignment dataflow, forked at every `if`) on that cross block, once the path has sliced the
    joint covariance (an earlier return - q(u) itself for x == Z - is outside the clause).  A path on which it does not
    returns the prior covariance Kxx for some kind of q(u)."""
    rep.rule("C14-19", "on every path through a strategy's forward that slices the joint prior covariance, the covariance of the returned q(f) depends on the inducing/data cross block (the reduction Kxz Kzz^-1 Kzx of the prior conditional is never skipped, e.g. for a q(u) without covariance)")
    VS = idx.find_class("_VariationalStrategy")

    def is_source(e: ast.AST) -> bool:
        # X[..., :n, n:] with one and the same name n: the (inducing, data) block of the joint covariance
        if not (isinstance(e, ast.Subscript) and isinstance(e.slice, ast.Tuple)):
            return False
        sl = [x for x in e.slice.elts if isinstance(x, ast.Slice)]
        if len(sl) != 2:
            return False
        a, b = sl
        return (a.lower is None and isinstance(a.upper, ast.Name) and b.upper is None and isinstance(b.lower, ast.Name) and a.upper.id == b.lower.id
                and a.step is None and b.step is None)

    def tainted(e: ast.AST, env: Dict[str, bool]) -> bool:
        for x in ast.walk(e):
            if is_source(x):
                return True
            if isinstance(x, ast.Name) and env.get(x.id):
                return True
        return False

    def target_names(t: ast.AST) -> List[str]:
        return [x.id for x in ast.walk(t) if isinstance(x, ast.Name)]

    def run_block(stmts: List[ast.stmt], env: Dict[str, bool], out: List[Tuple[ast.Return, Dict[str, bool]]]) -> List[Dict[str, bool]]:
        """returns the environments with which control falls off the end of the block; returns reached are appended to `out`"""
        envs = [env]
        for st in stmts:
            nxt: List[Dict[str, bool]] = []
            for e in envs:
                if isinstance(st, ast.Return):
                    out.append((st, e))
                    continue
                if isinstance(st, ast.Raise):
                    continue
                if isinstance(st, ast.If):
                    nxt += run_block(st.body, dict(e), out) + run_block(st.orelse, dict(e), out)
                    continue
                if isinstance(st, (ast.With, ast.For, ast.While)):
                    body = run_block(st.body, dict(e), out)
                    nxt += body + ([dict(e)] if not isinstance(st, ast.With) else [])
                    continue
                if isinstance(st, ast.Try):
                    nxt += run_block(st.body + st.orelse + st.finalbody, dict(e), out)
                    for h in st.handlers:
                        nxt += run_block(h.body + st.finalbody, dict(e), out)
                    continue
                e2 = dict(e)
                if isinstance(st, ast.Assign):
                    tv = tainted(st.value, e)
                    if any(is_source(x) for x in ast.walk(st.value)):
                        e2["<sliced>"] = True
                    zero = isinstance(st.value, ast.Call) and (chain(st.value.func) or "").split(".")[-1] == "ZeroLinearOperator"
                    for t in st.targets:
                        for nme in target_names(t):
                            e2[nme] = tv
                            e2["<zero>" + nme] = zero
                elif isinstance(st, ast.AugAssign):
                    for nme in target_names(st.target):
                        e2[nme] = e.get(nme, False) or tainted(st.value, e)
                elif isinstance(st, ast.AnnAssign) and st.value is not None:
                    for nme in target_names(st.target):
                        e2[nme] = tainted(st.value, e)
                nxt.append(e2)
            envs = nxt
        return envs

    n = 0
    for cls in sorted([VS] + list(idx.subclasses(VS)), key=lambda c: (c.module.name, c.qualname)):
        fw = cls.methods.get("forward")
        if fw is None or not any(is_source(x) for x in ast.walk(fw.node)):
            continue
        # the joint covariance has to be the *prior* (self.model.forward); a strategy that wraps another variational model and slices
        # that model's q(f) (`self.model(...)`: OrthogonallyDecoupledVariationalStrategy) takes its covariance from the wrapped model
        if not any(isinstance(c.func, ast.Attribute) and c.func.attr == "forward" and (chain(c.func.value) or "").endswith(".model") for c in calls_in(fw.node)):
            continue
        n += 1
        rets: List[Tuple[ast.Return, Dict[str, bool]]] = []
        run_block(body_without_docstring(fw.node), {}, rets)
        probs, paths = [], 0
        for r, env in rets:
            v = r.value
            if not (isinstance(v, ast.Call) and len(v.args) >= 2 and (chain(v.func) or "").split(".")[-1].endswith("Normal")):
                continue
            if not env.get("<sliced>"):
                continue  # (a return before the joint covariance is sliced, e.g. q(u) itself for x == Z: outside the clause)
            if isinstance(v.args[1], ast.Name) and env.get("<zero>" + v.args[1].id) and "skip_posterior_variances" in src(fw.node):
                continue  # (the explicit zero placeholder of settings.skip_posterior_variances: no covariance is asked for)
            paths += 1
            if not tainted(v.args[1], env):
                probs.append("a path reaches `return %s` with a covariance that does not depend on the cross block `[..., :n, n:]` of the joint prior covariance: for the q(u) of that path the strategy returns the prior covariance Kxx instead of Kxx - Kxz Kzz^-1 (Kzz - S) Kzz^-1 Kzx" % " ".join(src(v).split())[:60])
        if paths == 0:
            raise AnalysisError("C14-19: %s.forward slices the cross block but returns no distribution built from two arguments (anchor)" % cls.qualname)
        rep.add("C14-19", "%s:%s.forward[covariance depends on Kzx]" % (cls.module.name, cls.qualname), fw.where, not probs,
                "all %d returning paths hand out a covariance computed from the cross block" % paths if not probs else "; ".join(sorted(set(probs))), {"paths": paths})
    rep.floor("C14-19", "strategies slicing the joint prior covariance", n, 4)
