"""C10 - MultivariateNormal: arithmetic and indexing act on mean and covariance consistently (structural clause only).

C10-1  affine form of the arithmetic operators: X + Y -> (m + m', C + C'); X + c -> (m + c, C); X * c -> (c m, c^2 C);
       X / c = X * (1/c); add_jitter keeps the mean; confidence_region = (m - 2 s, m + 2 s) with s = stddev
C10-2  __getitem__ applies the event index to the mean and to *both* axes of the covariance (or to its diagonal for an int);
       batch-only indices go to both unchanged
C10-3  expand / unsqueeze act on mean and covariance with the same batch operation
Densities, KL, sampling moments are numerical and are NOT decided.  (DESIGN.md section 9.7.)
"""
from __future__ import annotations

import ast
from fractions import Fraction
from typing import Dict, List, Optional, Set, Tuple

from ..cfg import enumerate_paths, RETURN
from ..domains.affine import Affine, AffineEval, Scalar
from ..index import (AnalysisError, ClassInfo, FuncInfo, ProgramIndex, body_without_docstring, call_name, calls_in, chain, norm, src)
from ..report import Report
from .c02 import affine_paths

MOD = "gpytorch.distributions.multivariate_normal"


def _ctor_args(call: ast.Call):
    kw = {k.arg: k.value for k in call.keywords}
    mean = kw.get("mean", call.args[0] if call.args else None)
    cov = kw.get("covariance_matrix", call.args[1] if len(call.args) > 1 else None)
    return mean, cov


def run(idx: ProgramIndex, rep: Report, tier: str):
    rep.explanation = (
        "Affine-form abstract interpretation of MultivariateNormal.__add__/__mul__/__truediv__/add_jitter/confidence_region: sources "
        "MEAN/COV (self), OMEAN/OCOV (other distribution), symbol c (scalar operand); the distribution returned on every path must be "
        "self.__class__(mean form, covariance form) with the forms the corresponding operation on the random vector has. Structural "
        "check of __getitem__ (the event index reaches the mean and both covariance axes) and of expand/unsqueeze. Only this "
        "clause of C10 is decided: densities, KL and sampling are numerical.")
    rep.rule("C10-1", "arithmetic operators act on (mean, covariance) as on the random vector: (m+m', C+C'), (m+c, C), (cm, c^2 C), jitter on C only, m -/+ 2 stddev")
    rep.rule("C10-2", "indexing applies the same event index to the mean and to both covariance axes")
    rep.rule("C10-4", "no in-place aliasing hazard in MultivariateNormal (e.g. confidence_region must not overwrite the mean)")
    rep.rule("C10-3", "expand / unsqueeze apply the same batch operation to mean and covariance")
    M = idx.cls(MOD, "MultivariateNormal")

    def classify_for(fi: FuncInfo):
        sn = fi.params[0]
        other = fi.params[1] if len(fi.params) > 1 else None

        def classify(e, aliases):
            c = chain(e)
            if c in ("%s.mean" % sn, "%s.loc" % sn):
                return ("source", "MEAN")
            if c in ("%s.lazy_covariance_matrix" % sn, "%s.covariance_matrix" % sn, "%s._covar" % sn):
                return ("source", "COV")
            if c == "%s.stddev" % sn:
                return ("source", "STD")
            if other and c in ("%s.mean" % other, "%s.loc" % other):
                return ("source", "OMEAN")
            if other and c in ("%s.lazy_covariance_matrix" % other, "%s.covariance_matrix" % other):
                return ("source", "OCOV")
            if other and isinstance(e, ast.Name) and e.id == other:
                return ("symbol", "c")
            if isinstance(e, ast.Call) and isinstance(e.func, ast.Attribute) and e.func.attr == "add_jitter":
                return ("alias", ast.BinOp(left=e.func.value, op=ast.Add(), right=ast.Name(id="__JITTER__", ctx=ast.Load())))
            if isinstance(e, ast.Name) and e.id == "__JITTER__":
                return ("source", "JITTER")
            if isinstance(e, ast.Name) and e.id in aliases and aliases[e.id][0] == "expr":
                return ("alias", aliases[e.id][1])
            return None
        return classify

    def forms(fi: FuncInfo):
        """-> list of (mean form, cov form, ctor text) per returning path that constructs a distribution; plus 'identity' returns"""
        out = []
        for p in enumerate_paths(body_without_docstring(fi.node)):
            if p.outcome != RETURN:
                continue
            aliases: Dict[str, object] = {}
            ae = AffineEval(lambda e, a=aliases: classify_for(fi)(e, a))
            ret = None
            for s in p.steps:
                if s.kind != "stmt":
                    continue
                st = s.node
                if isinstance(st, ast.Assign) and len(st.targets) == 1 and isinstance(st.targets[0], ast.Name):
                    v = ae.ev(st.value)
                    if v is None:
                        aliases[st.targets[0].id] = ("expr", st.value)
                    else:
                        ae.env[st.targets[0].id] = v
                elif isinstance(st, ast.Return):
                    ret = st.value
                    if isinstance(ret, ast.Name) and ret.id in aliases and aliases[ret.id][0] == "expr" and isinstance(aliases[ret.id][1], ast.Call):
                        ret = aliases[ret.id][1]  # `new = self.__class__(...); ...; return new`
            cond = " and ".join("%s=%s" % (src(s.node)[:40], s.truth) for s in p.steps if s.kind == "assume")
            out.append((ret, ae, cond))
        return out

    def show(v):
        return v.show() if isinstance(v, Affine) else ("scalar" if isinstance(v, Scalar) else "unrecognised")

    def expect(name: str, wants: List[tuple]):
        """wants: list of (mean terms, cov terms) acceptable for constructing returns (each constructing return must match one)"""
        fi = idx.method(M, name, own=True)
        probs = []
        n = 0
        matched = set()
        for ret, ae, cond in forms(fi):
            if ret is None:
                continue
            if isinstance(ret, ast.Name) and ret.id == fi.params[0]:
                continue  # identity return (`other == 1`, `other == 0`)
            from ..symbolic import expand_hook
            ret = expand_hook(M, ret)
            if isinstance(ret, ast.Call) and src(ret.func) in ("%s.__class__" % fi.params[0], "MultivariateNormal", "type(%s)" % fi.params[0]):
                n += 1
                me, ce = _ctor_args(ret)
                mv, cv = (ae.ev(me) if me is not None else None), (ae.ev(ce) if ce is not None else None)
                ok = False
                for i, (wm, wc) in enumerate(wants):
                    if isinstance(mv, Affine) and isinstance(cv, Affine) and mv.terms == wm and cv.terms == wc:
                        ok = True
                        matched.add(i)
                if not ok:
                    probs.append("returns (%s ; %s)%s" % (show(mv), show(cv), " when " + cond if cond else ""))
            elif isinstance(ret, ast.Call) and isinstance(ret.func, ast.Attribute) and chain(ret.func.value) == fi.params[0]:
                n += 1  # delegation, checked by the caller
            else:
                probs.append("returns `%s`" % src(ret)[:50])
        if len(matched) < len(wants):
            probs.append("not every expected form is produced (%d of %d)" % (len(matched), len(wants)))
        rep.add("C10-1", "%s:MultivariateNormal.%s" % (MOD, name), fi.where, not probs and n > 0,
                "%d constructing return(s) carry the expected (mean, covariance) forms" % n if not probs else "; ".join(probs), {})

    one = Fraction(1)
    C1, C2 = (("c", 1),), (("c", 2),)
    expect("__add__", [({("MEAN", ()): one, ("OMEAN", ()): one}, {("COV", ()): one, ("OCOV", ()): one}),
                       ({("MEAN", ()): one, ("1", C1): one}, {("COV", ()): one})])
    expect("__mul__", [({("MEAN", C1): one}, {("COV", C2): one})])
    expect("add_jitter", [({("MEAN", ()): one}, {("COV", ()): one, ("JITTER", ()): one})])
    # __truediv__ = __mul__(1/c); __radd__ = __add__(other)
    td = idx.method(M, "__truediv__", own=True)
    rets = [r.value for r in ast.walk(td.node) if isinstance(r, ast.Return) and r.value is not None]
    ok = len(rets) == 1 and isinstance(rets[0], ast.Call) and src(rets[0].func) == "self.__mul__" and norm(rets[0].args[0]).replace(" ", "") in ("1.0/other", "1/other")
    rep.add("C10-1", "%s:MultivariateNormal.__truediv__" % MOD, td.where, ok, "division is multiplication by the reciprocal" if ok else "__truediv__ is not self.__mul__(1 / other)", {})
    ra = idx.method(M, "__radd__", own=True)
    rets = [r.value for r in ast.walk(ra.node) if isinstance(r, ast.Return) and r.value is not None]
    ok = all((isinstance(r, ast.Name) and r.id == "self") or (isinstance(r, ast.Call) and src(r.func) == "self.__add__" and src(r.args[0]) == "other") for r in rets) and len(rets) >= 1
    rep.add("C10-1", "%s:MultivariateNormal.__radd__" % MOD, ra.where, ok, "0 + X is X; otherwise delegates to __add__" if ok else "__radd__ no longer delegates to __add__(other)", {})
    # confidence region
    cr = idx.method(M, "confidence_region", own=True)
    probs = []
    for ret, ae, cond in forms(cr):
        if not isinstance(ret, ast.Tuple) or len(ret.elts) != 2:
            probs.append("does not return a pair")
            continue
        lo, hi = ae.ev(ret.elts[0]), ae.ev(ret.elts[1])
        wl = {("MEAN", ()): one, ("STD", ()): Fraction(-2)}
        wh = {("MEAN", ()): one, ("STD", ()): Fraction(2)}
        if not (isinstance(lo, Affine) and isinstance(hi, Affine) and lo.terms == wl and hi.terms == wh):
            probs.append("returns (%s , %s), expected (MEAN - 2*STD, MEAN + 2*STD)" % (show(lo), show(hi)))
    rep.add("C10-1", "%s:MultivariateNormal.confidence_region" % MOD, cr.where, not probs, "(mean - 2 stddev, mean + 2 stddev)" if not probs else "; ".join(probs), {})
    # C10-2 indexing (decided on inlined expressions: E is whatever the mean is indexed with; the covariance must be indexed
    # with E (batch only), E[:-1] (ellipsis) or with E[:-1] followed by E[-1] on *both* event axes)
    from ..symbolic import inline, walk_paths
    gi = idx.method(M, "__getitem__", own=True)
    probs = []
    sn = gi.params[0]
    nb = 0
    forms_seen = set()
    for path, seq in walk_paths(gi):
        for st, env in seq:
            if not (isinstance(st, ast.Return) and st.value is not None):
                continue
            r = inline(st.value, env)
            if not (isinstance(r, ast.Call) and src(r.func) in ("%s.__class__" % sn, "MultivariateNormal", "type(%s)" % sn)):
                probs.append("the result is not self.__class__(mean, covariance)")
                continue
            me, ce = _ctor_args(r)
            if not (isinstance(me, ast.Subscript) and chain(me.value) in ("%s.mean" % sn, "%s.loc" % sn)):
                probs.append("the mean of the result is not self.mean[<index>]")
                continue
            E = me.slice
            dE = ast.dump(E)
            d_rest = ast.dump(ast.Subscript(value=E, slice=ast.Slice(lower=None, upper=ast.UnaryOp(op=ast.USub(), operand=ast.Constant(value=1)), step=None), ctx=ast.Load()))
            d_last = ast.dump(ast.Subscript(value=E, slice=ast.UnaryOp(op=ast.USub(), operand=ast.Constant(value=1)), ctx=ast.Load()))
            nb += 1
            subs, cur, on_diag = [], ce, False
            while True:
                if isinstance(cur, ast.Subscript):
                    subs.append(cur)
                    cur = cur.value
                elif isinstance(cur, ast.Call) and isinstance(cur.func, ast.Attribute) and cur.func.attr in ("diagonal",):
                    on_diag = True
                    cur = cur.func.value
                elif isinstance(cur, ast.Call) and chain(cur.func) in ("DiagLinearOperator", "to_linear_operator") and cur.args:
                    cur = cur.args[0]
                else:
                    break
            if chain(cur) not in ("%s.lazy_covariance_matrix" % sn, "%s._covar" % sn):
                probs.append("a branch builds the covariance from `%s`" % src(ce)[:60])
                continue

            flat = []
            for x in reversed(subs):
                whole = ast.dump(x.slice)
                for e in ([x.slice] if whole in (dE, d_rest, d_last) or not isinstance(x.slice, ast.Tuple) else x.slice.elts):
                    star = isinstance(e, ast.Starred)
                    d = ast.dump(e.value if star else e)
                    tag = "idx" if d == dE else "rest" if d == d_rest else "last" if d == d_last else ("ellipsis" if isinstance(e, ast.Constant) and e.value is Ellipsis else "full" if src(e) in ("slice(None, None, None)",) or (isinstance(e, ast.Slice) and e.lower is None and e.upper is None) else "?" + src(e)[:20])
                    flat.append(tag + ("*" if star else ""))
            n_last = flat.count("last")
            if flat in (["idx"], ["rest"]):
                forms_seen.add(flat[0])
                continue  # batch-only index / ellipsis as last index
            if any(t.startswith("?") for t in flat):
                probs.append("a branch indexes the covariance with something other than the event index of the mean: %s" % flat)
            elif on_diag:
                forms_seen.add("int")
                if not (n_last == 1 and "rest*" in flat):
                    probs.append("int index: the diagonal is not indexed with (*rest, last)")
                # Diag(diagonal[..., i]) is the marginal only for a single integer: an index tensor / list may repeat an entry, and the
                # covariance of a variable with itself is its variance, not 0
                int_path = any(getattr(s_, "kind", "") == "assume" and s_.truth and "isinstance" in src(s_.node) and "int" in src(s_.node) and "slice" not in src(s_.node) for s_, _e in seq)
                if not int_path:
                    probs.append("a branch that was not tested to have an integer event index builds the covariance as a diagonal of selected variances: for an index tensor with a repeated entry the copies of one variable come out independent")
            elif n_last != 2 or not ("rest*" in flat or "rest" in flat):
                probs.append("a branch indexes the covariance with %s: the event index does not reach both axes" % flat)
            else:
                forms_seen.add("both")
    rep.add("C10-2", "%s:MultivariateNormal.__getitem__" % MOD, gi.where, not probs and nb >= 4 and {"idx", "both"} <= forms_seen, "mean[E]; covariance indexed with the same event index on both axes on all %d returning paths" % nb if not probs else "; ".join(sorted(set(probs))[:3]), {"paths": nb})
    # C10-3 expand / unsqueeze: on every returning path the mean and the covariance handed to the new distribution are self's mean
    # and covariance under the same batch operation with the same batch argument (inlined expressions, no local names)
    for name in ("expand", "unsqueeze"):
        f = idx.method(M, name, own=True)
        sn = f.params[0]
        probs = []
        npaths = 0
        for path, seq in walk_paths(f):
            if path.outcome != RETURN:
                continue
            means, covs = [], []
            for st, env in seq:
                if not isinstance(st, ast.stmt):
                    continue
                from ..symbolic import expand_hook as _eh
                for c0 in (x for x in ast.walk(st) if isinstance(x, ast.Call)):
                    c = _eh(M, c0) if sn == "self" else c0
                    kw = {k.arg: k.value for k in c.keywords}
                    if src(c.func) in ("%s.__class__" % sn, "MultivariateNormal", "type(%s)" % sn):
                        me, ce = _ctor_args(c)
                        if me is not None and ce is not None:
                            means.append(inline(me, env))
                            covs.append(inline(ce, env))
                    elif "loc" in kw:
                        means.append(inline(kw["loc"], env))
                if isinstance(st, ast.Assign) and len(st.targets) == 1 and isinstance(st.targets[0], ast.Attribute) and st.targets[0].attr in COV_ATTRS and chain(st.targets[0].value) != sn:
                    covs.append(inline(st.value, env))
            if not means and not covs:
                continue
            npaths += 1
            if len(means) != 1 or len(covs) != 1:
                probs.append("a path builds the result from %d mean and %d covariance expressions" % (len(means), len(covs)))
                continue

            def op_of(e):
                if isinstance(e, ast.Call) and isinstance(e.func, ast.Attribute) and e.func.attr == name and e.args:
                    return chain(e.func.value), e.args[0]
                return None, None
            mb, ma = op_of(means[0])
            cb, ca = op_of(covs[0])
            if mb not in ("%s.loc" % sn, "%s.mean" % sn) or cb not in ("%s._covar" % sn, "%s.covariance_matrix" % sn, "%s.lazy_covariance_matrix" % sn):
                probs.append("mean `%s` / covariance `%s` are not self's mean and covariance under .%s(...)" % (src(means[0])[:40], src(covs[0])[:40], name))
                continue
            if name == "unsqueeze":
                same = ast.dump(ma) == ast.dump(ca)
            else:
                same = isinstance(ma, ast.BinOp) and isinstance(ca, ast.BinOp) and ast.dump(ma.left) == ast.dump(ca.left)
            if not same:
                probs.append("mean is %s-ed with `%s` but the covariance with `%s`" % (name, src(ma)[:40], src(ca)[:40]))
        why = "mean and covariance undergo the same batch %s on all %d constructing path(s)" % (name, npaths)
        rep.add("C10-3", "%s:MultivariateNormal.%s" % (MOD, name), f.where, not probs and npaths >= 2, why if not probs else "; ".join(sorted(set(probs))), {})

    from .common_alias import aliasing_obligations
    aliasing_obligations(idx, rep, "C10-4", list(M.methods.values()), 15, "MultivariateNormal methods interpreted")
    carried_factor(idx, rep, M)
    constructor_broadcasts(idx, rep, M)
    positional_dims_on_full_batch(idx, rep, M)
    kl_assembly(idx, rep)
    conditional_attributes(idx, rep)
    getitem_index_forms(idx, rep, M)
    scale_tril_is_triangular(idx, rep, M)
    argument_reshapes(idx, rep, M)
    initialises_what_it_creates(idx, rep)
    reflected_scalar_operators(idx, rep, M)


# ---- C10-5: a Cholesky factor carried over into a new distribution ------------------------------------------------------
FACTOR_ATTRS = ("__unbroadcasted_scale_tril", "_unbroadcasted_scale_tril", "scale_tril")
COV_ATTRS = ("_covar", "covariance_matrix", "lazy_covariance_matrix")
SHAPE_ONLY = ("expand", "unsqueeze", "squeeze", "view", "reshape", "contiguous", "clone", "to", "type_as", "detach")


def _strip(e: ast.AST, env: Dict[str, ast.AST], sn: str, depth: int = 0):
    """-> (base attribute of self or None, [operation names applied], [multipliers])"""
    ops: List[str] = []
    muls: List[ast.AST] = []
    while depth < 20:
        depth += 1
        if isinstance(e, ast.Name) and e.id in env:
            e = env[e.id]
        elif isinstance(e, ast.Call) and isinstance(e.func, ast.Attribute) and e.func.attr in SHAPE_ONLY:
            if e.func.attr in ("expand", "unsqueeze", "squeeze", "view", "reshape"):
                ops.append(e.func.attr)
            e = e.func.value
        elif isinstance(e, ast.Call) and isinstance(e.func, ast.Attribute) and e.func.attr in ("mul", "mul_", "div", "div_") and len(e.args) == 1:
            muls.append(e.args[0])
            ops.append("scale")
            e = e.func.value
        elif isinstance(e, ast.BinOp) and isinstance(e.op, (ast.Mult, ast.Div)):
            # the side that is not (derived from) self carries the scalar
            l_self = any(isinstance(x, ast.Name) and x.id == sn for x in ast.walk(e.left))
            muls.append(e.right if l_self else e.left)
            ops.append("scale")
            e = e.left if l_self else e.right
        elif isinstance(e, ast.Subscript):
            ops.append("index")
            e = e.value
        else:
            break
    if isinstance(e, ast.Attribute) and isinstance(e.value, ast.Name) and e.value.id == sn:
        return e.attr, list(reversed(ops)), muls
    return None, list(reversed(ops)), muls


def _nonnegative(e: ast.AST) -> bool:
    if isinstance(e, ast.Constant) and isinstance(e.value, (int, float)) and e.value >= 0:
        return True
    if isinstance(e, ast.Call):
        fn = (chain(e.func) or "").split(".")[-1]
        if fn in ("abs", "sqrt", "exp", "softplus") or (isinstance(e.func, ast.Attribute) and e.func.attr in ("abs", "sqrt", "exp")):
            return True
    if isinstance(e, ast.BinOp) and isinstance(e.op, ast.Pow) and isinstance(e.right, ast.Constant) and isinstance(e.right.value, int) and e.right.value % 2 == 0:
        return True
    return False


def carried_factor(idx: ProgramIndex, rep: Report, M):
    """`new.__unbroadcasted_scale_tril = E` / `scale_tril=E`: the factor handed to the new distribution must be the factor of the
    new covariance.  Decidable cases: E is self's factor under the same shape-only operations as the covariance (expand, unsqueeze);
    a scaled factor L*c is a Cholesky factor of c^2 C only for c >= 0, so the multiplier must be syntactically non-negative."""
    rep.rule("C10-5", "a Cholesky factor carried into a new distribution is transformed like the covariance (same shape-only operations; scaling only by a non-negative factor)")
    n = 0
    classes = [M] + [c for c in idx.subclasses(M, strict=True)]
    for cls in classes:
        for fi in cls.methods.values():
            if not fi.params or fi.kind in ("staticmethod",):
                continue
            sn = fi.params[0]
            for p in enumerate_paths(body_without_docstring(fi.node)):
                env: Dict[str, ast.AST] = {}
                carries: List[Tuple[str, ast.AST, int, str]] = []
                covs: Dict[str, ast.AST] = {}
                for s_ in p.steps:
                    if s_.kind != "stmt":
                        continue
                    st = s_.node
                    if isinstance(st, ast.Assign) and len(st.targets) == 1:
                        t = st.targets[0]
                        if isinstance(t, ast.Name):
                            env[t.id] = st.value
                            from ..symbolic import expand_hook
                            stv = expand_hook(cls, st.value) if sn == "self" else st.value
                            if isinstance(stv, ast.Call) and src(stv.func) in ("%s.__class__" % sn, "MultivariateNormal", "type(%s)" % sn, cls.name):
                                cv = _ctor_args(stv)[1]
                                if cv is not None:
                                    covs[t.id] = cv
                        elif isinstance(t, ast.Attribute) and isinstance(t.value, ast.Name) and t.value.id != sn:
                            if t.attr in FACTOR_ATTRS:
                                carries.append((t.value.id, st.value, st.lineno, "attribute store"))
                            elif t.attr in COV_ATTRS:
                                covs[t.value.id] = st.value
                    for c in (x for x in ast.walk(st) if isinstance(x, ast.Call)):
                        for k in c.keywords:
                            if k.arg == "scale_tril":
                                # super(MultivariateNormal, new).__init__(loc=.., scale_tril=..): the object is the 2nd argument of super()
                                obj = None
                                if isinstance(c.func, ast.Attribute) and isinstance(c.func.value, ast.Call) and chain(c.func.value.func) == "super" and len(c.func.value.args) == 2 and isinstance(c.func.value.args[1], ast.Name):
                                    obj = c.func.value.args[1].id
                                carries.append((obj or "?", k.value, c.lineno, "scale_tril="))
                for obj, e, line, how in carries:
                    base, ops, muls = _strip(e, env, sn)
                    inst = "%s:%s.%s[factor of %s by %s @%s]" % (cls.module.name, cls.qualname, fi.name, obj, how, "/".join(ops) or "as is")
                    if any(o.instance == inst for o in rep.obligations if o.rule == "C10-5"):
                        continue
                    where = "%s:%d" % (fi.module.relpath, line)
                    if base is None or base not in FACTOR_ATTRS:
                        rep.observe("C10-5", inst, where, "factor `%s` is not derived from self's factor (computed afresh): nothing carried" % src(e)[:50])
                        continue
                    n += 1
                    probs = []
                    bad_mul = [m for m in muls if not _nonnegative(m)]
                    if bad_mul:
                        probs.append("the carried factor is scaled by `%s`, which may be negative: L*c is a Cholesky factor of c^2 C only for c >= 0 (the Cholesky path of log_prob / rsample then uses a factor with negative diagonal)" % src(bad_mul[0])[:30])
                    cov = covs.get(obj)
                    if cov is not None:
                        cbase, cops, cmuls = _strip(cov, env, sn)
                        if cbase in COV_ATTRS and [o for o in cops if o != "scale"] != [o for o in ops if o != "scale"]:
                            probs.append("the factor is transformed by %s but the covariance by %s" % (ops or ["nothing"], cops or ["nothing"]))
                        if cbase in COV_ATTRS and ("scale" in cops) != ("scale" in ops):
                            probs.append("covariance and carried factor are not scaled alike")
                        if cbase is None and not ops:
                            probs.append("the covariance of the new distribution is recomputed (`%s`) while the factor is carried over unchanged" % src(cov)[:40])
                    rep.add("C10-5", inst, where, not probs, "factor and covariance undergo the same shape-only operations %s" % ops if not probs else "; ".join(probs), {"ops": ops})
    rep.floor("C10-5", "carried Cholesky factors", n, 4)


# ---- C10-6 ---------------------------------------------------------------------------------------------------------
def constructor_broadcasts(idx: ProgramIndex, rep: Report, M):
    """Every method of MultivariateNormal assumes that `loc` and the covariance already have the distribution's batch shape (log_prob
    computes repeat factors by integer division of the two, rsample adds noise of the covariance's batch shape to loc, __getitem__ indexes
    both with the same batch index).  The dense branch of the constructor gets that from torch (which broadcasts loc and the scale
    factor); the lazy branch has to establish it itself: what it stores as loc / covariance must be expanded to the very batch shape it
    declares to the base class."""
    from ..symbolic import inline, walk_paths
    rep.rule("C10-6", "the lazy branch of the constructor stores mean and covariance expanded to the batch shape it declares (as the dense branch does through torch)")
    init = idx.method(M, "__init__", own=True)
    sn = init.params[0]
    n = 0
    probs = set()
    for path, seq in walk_paths(init):
        stores = {}
        declared = None
        lazy = False
        for st, env in seq:
            if getattr(st, "kind", "") == "assume" and "_islazy" in src(st.node) and st.truth:
                lazy = True
            if not isinstance(st, ast.stmt):
                continue
            if isinstance(st, ast.Assign) and len(st.targets) == 1 and isinstance(st.targets[0], ast.Attribute) and chain(st.targets[0].value) == sn and st.targets[0].attr in ("loc", "_covar"):
                stores[st.targets[0].attr] = inline(st.value, env)
            for c in (x for x in ast.walk(st) if isinstance(x, ast.Call) and isinstance(x.func, ast.Attribute) and x.func.attr == "__init__" and "super" in src(x.func.value) and x.args):
                declared = inline(c.args[0], env)
        if not lazy or declared is None or set(stores) != {"loc", "_covar"}:
            continue
        n += 1
        dd = ast.dump(declared)
        for k, v in stores.items():
            # the stored value must be `<something>.expand(*<declared batch shape>, ...)` on the paths that can carry batch dimensions
            ok = False
            for x in ast.walk(v):
                if isinstance(x, ast.Call) and isinstance(x.func, ast.Attribute) and x.func.attr in ("expand", "_expand_batch") and any(isinstance(a, ast.Starred) and ast.dump(a.value) == dd for a in x.args):
                    ok = True
            # degenerate inputs (0-d mean) may be stored as they are if the path assumed so
            degenerate = any(getattr(s_, "kind", "") == "assume" and ".dim()" in src(s_.node) and not s_.truth for s_, _e in seq)
            if not ok and not degenerate:
                probs.add("self.%s is stored as `%s`, not expanded to the declared batch shape `%s`" % (k, " ".join(src(v).split())[:40], " ".join(src(declared).split())[:60]))
    rep.add("C10-6", "%s:MultivariateNormal.__init__[lazy branch]" % MOD, init.where, n > 0 and not probs,
            "loc and covariance are expanded to the declared batch shape on %d lazy path(s)" % n if n > 0 and not probs else
            ("; ".join(sorted(probs)) + ": a lazy distribution whose mean and covariance have different batch shapes is accepted and reports the broadcast batch shape, but log_prob / rsample / kl / indexing work on the un-broadcast tensors (raise, or return a non-square 'covariance')" if probs else "no lazy construction path found"), {})


# ---- C10-7 ---------------------------------------------------------------------------------------------------------
def positional_dims_on_full_batch(idx: ProgramIndex, rep: Report, M):
    """torch keeps the scale factor of a dense MultivariateNormal *un-broadcast* (`_unbroadcasted_scale_tril` has the batch dimensions of
    the covariance argument only, which may be fewer than the distribution's).  A non-negative batch position - `dim` after
    `dim = len(self.batch_shape) + dim + 1` - addresses the distribution's batch shape, so it may be applied to the factor only after the
    factor was expanded to that batch shape; right-aligned operations (expand, negative dims) are fine as they are."""
    from ..symbolic import inline, walk_paths
    rep.rule("C10-7", "a position in the distribution's batch shape is applied to the un-broadcast scale factor only after the factor was expanded to that batch shape")
    n = 0
    for name, fi in sorted(M.methods.items()):
        uses = [c for c in calls_in(fi.node) if isinstance(c.func, ast.Attribute) and c.func.attr in ("unsqueeze", "squeeze", "select", "movedim", "permute", "transpose") and c.args]
        if not uses or "unbroadcasted" not in src(fi.node):
            continue
        seen = set()
        probs = set()
        for path, seq in walk_paths(fi):
            for st, env in seq:
                if not isinstance(st, ast.stmt):
                    continue
                for c in (x for x in ast.walk(st) if isinstance(x, ast.Call) and isinstance(x.func, ast.Attribute) and x.func.attr in ("unsqueeze", "squeeze", "select", "movedim") and x.args):
                    recv = inline(c.func.value, env)
                    if "unbroadcasted" not in src(recv):
                        continue
                    # on a path that assumed `<receiver> is not None` to be false the call cannot be reached with a tensor
                    none_path = False
                    for s_, e_ in seq:
                        if getattr(s_, "kind", "") == "assume" and not s_.truth and isinstance(s_.node, ast.Compare) and len(s_.node.ops) == 1 and isinstance(s_.node.ops[0], ast.IsNot) \
                           and isinstance(s_.node.comparators[0], ast.Constant) and s_.node.comparators[0].value is None and ast.dump(inline(s_.node.left, e_)) == ast.dump(recv):
                            none_path = True
                    if none_path:
                        continue
                    if (c.lineno, c.col_offset) not in seen:
                        seen.add((c.lineno, c.col_offset))
                        n += 1
                    arg = inline(c.args[0], env)
                    positional = "batch_shape" in src(arg) or (isinstance(c.args[0], ast.Name) and any(getattr(s_, "kind", "") == "assume" and c.args[0].id in src(s_.node) and "< 0" in src(s_.node) for s_, _e in seq))
                    neg_literal = isinstance(arg, ast.UnaryOp) and isinstance(arg.op, ast.USub)
                    expanded = any(isinstance(x, ast.Call) and isinstance(x.func, ast.Attribute) and x.func.attr == "expand" and "batch_shape" in src(x) for x in ast.walk(recv))
                    if not neg_literal and not expanded and (positional or isinstance(c.args[0], ast.Name)):
                        probs.add("`%s` (line %d) applies the batch position `%s` to the un-broadcast factor" % (" ".join(src(c).split())[:60], c.lineno, src(c.args[0])))
        if not seen:
            continue
        rep.add("C10-7", "%s:MultivariateNormal.%s[positions on the un-broadcast factor]" % (MOD, name), fi.where, not probs,
                "the factor is expanded to the batch shape before positions are applied" if not probs else
                "; ".join(sorted(probs)) + ": for a dense distribution whose covariance has fewer batch dimensions than its mean the new dimension lands in the wrong place (wrong batch shape, or an exception)", {})
    rep.floor("C10-7", "positional operations on the un-broadcast factor", n, 1)


# ---- C10-8 ---------------------------------------------------------------------------------------------------------
def kl_assembly(idx: ProgramIndex, rep: Report):
    """KL(p || q) of two Gaussians = 1/2 [ log|S_q| - log|S_p| - k + tr(S_q^-1 S_p) + (m_p - m_q)^T S_q^-1 (m_p - m_q) ].  The registered
    kl_mvn_mvn is inlined path by path and its result must be 1/2 of the sum of exactly these terms, each recognised by provenance:
      +  log|S_q|  : second output of  S_q.inv_quad_logdet(..., logdet=True)  (or S_q.logdet())
      -  log|S_p|  : S_p.logdet()  -  or twice the summed log-diagonal of a CHOLESKY factor of S_p (a general root is not triangular)
      +  trace + quadratic form : first output of S_q.inv_quad_logdet(inv_quad_rhs = [m_p - m_q | R_p]) with R_p a root of S_p
      -  k         : the event size
    The values of the terms are numerical and not decided; what is decided is that the right operator's determinant / solve enters with
    the right sign."""
    from ..symbolic import inline, walk_paths
    rep.rule("C10-8", "kl_mvn_mvn is 1/2 [log|S_q| - log|S_p| - k + tr(S_q^-1 S_p) + quadratic form]: each term recognised by provenance (determinant of the right covariance, solve against S_q, root of S_p, event size), signs and the factor 1/2 by affine evaluation")
    fi = idx.function(MOD, "kl_mvn_mvn")
    pd, qd = fi.params[0], fi.params[1]

    def strip(e: ast.AST) -> ast.AST:
        while True:
            if isinstance(e, ast.Call) and isinstance(e.func, ast.Attribute) and e.func.attr in ("to_dense", "expand", "evaluate_kernel", "contiguous") :
                e = e.func.value
            else:
                return e

    def cov_of(e: ast.AST) -> Optional[str]:
        e = strip(e)
        if isinstance(e, ast.Attribute) and e.attr in ("lazy_covariance_matrix", "covariance_matrix"):
            b = strip(e.value)
            if isinstance(b, ast.Name) and b.id in (pd, qd):
                return "p" if b.id == pd else "q"
        return None

    def mean_of(e: ast.AST) -> Optional[str]:
        e = strip(e)
        if isinstance(e, ast.Attribute) and e.attr in ("loc", "mean"):
            b = strip(e.value)
            if isinstance(b, ast.Name) and b.id in (pd, qd):
                return "p" if b.id == pd else "q"
        return None

    def is_mean_diff(e: ast.AST) -> bool:
        e = strip(e)
        if isinstance(e, ast.Call) and isinstance(e.func, ast.Attribute) and e.func.attr == "unsqueeze":
            e = e.func.value
        return isinstance(e, ast.BinOp) and isinstance(e.op, ast.Sub) and {mean_of(e.left), mean_of(e.right)} == {"p", "q"}

    def root_of_p(e: ast.AST) -> Optional[str]:
        """'root' / 'cholesky' of S_p, or None"""
        e = strip(e)
        if isinstance(e, ast.Attribute) and e.attr == "root" and isinstance(e.value, ast.Call) and isinstance(e.value.func, ast.Attribute) and e.value.func.attr == "root_decomposition" and cov_of(e.value.func.value) == "p":
            return "root"
        if isinstance(e, ast.Call) and isinstance(e.func, ast.Attribute) and e.func.attr == "cholesky" and cov_of(e.func.value) == "p":
            return "cholesky"
        if isinstance(e, ast.Call) and (chain(e.func) or "").split(".")[-1] == "psd_safe_cholesky" and e.args and cov_of(e.args[0]) == "p":
            return "cholesky"
        return None

    def atom(e: ast.AST) -> Tuple[Fraction, str]:
        """(coefficient, name of the term)"""
        e0 = e
        if isinstance(e, ast.UnaryOp) and isinstance(e.op, ast.USub):
            c, a = atom(e.operand)
            return -c, a
        if isinstance(e, ast.Call) and isinstance(e.func, ast.Attribute) and e.func.attr in ("mul", "mul_") and len(e.args) == 1:
            k = _num(e.args[0])
            if k is not None:
                c, a = atom(e.func.value)
                return c * k, a
        if isinstance(e, ast.BinOp) and isinstance(e.op, ast.Mult):
            for x, y in ((e.left, e.right), (e.right, e.left)):
                k = _num(x)
                if k is not None:
                    c, a = atom(y)
                    return c * k, a
        if isinstance(e, ast.Call) and isinstance(e.func, ast.Name) and e.func.id == "float" and len(e.args) == 1:
            return atom(e.args[0])
        # the event size
        if isinstance(e, ast.Call) and isinstance(e.func, ast.Attribute) and e.func.attr == "size" and len(e.args) == 1 and src(e.args[0]) == "-1" and (is_mean_diff(e.func.value) or mean_of(e.func.value)):
            return Fraction(1), "k"
        if isinstance(e, ast.Subscript) and src(e.slice) == "-1" and isinstance(e.value, ast.Attribute) and e.value.attr in ("event_shape", "shape") :
            return Fraction(1), "k"
        # determinants
        if isinstance(e, ast.Call) and isinstance(e.func, ast.Attribute) and e.func.attr == "logdet" and not e.args:
            w = cov_of(e.func.value)
            return Fraction(1), ("logdet_%s" % w if w else "logdet of `%s`" % norm(e.func.value)[:40])
        # outputs of inv_quad_logdet
        if isinstance(e, ast.Subscript) and isinstance(e.slice, ast.Constant) and e.slice.value in (0, 1) and isinstance(e.value, ast.Call) and isinstance(e.value.func, ast.Attribute) and e.value.func.attr == "inv_quad_logdet":
            c = e.value
            w = cov_of(c.func.value)
            kw = {k.arg: k.value for k in c.keywords}
            if e.slice.value == 1:
                on = isinstance(kw.get("logdet"), ast.Constant) and kw["logdet"].value is True
                return Fraction(1), ("logdet_%s" % w if w and on else "second output of inv_quad_logdet without logdet=True")
            rhs = kw.get("inv_quad_rhs", c.args[0] if c.args else None)
            ok = False
            if w == "q" and isinstance(rhs, ast.Call) and chain(rhs.func) == "torch.cat" and rhs.args and isinstance(rhs.args[0], (ast.List, ast.Tuple)) and len(rhs.args[0].elts) == 2:
                a_, b_ = rhs.args[0].elts
                ok = (is_mean_diff(a_) and root_of_p(b_) is not None) or (is_mean_diff(b_) and root_of_p(a_) is not None)
            return Fraction(1), ("trace_quad" if ok else "inv_quad of `%s` against `%s`" % (w or "?", norm(rhs)[:50] if rhs is not None else "?"))
        # twice the summed log-diagonal of a factor
        x = e
        had = set()
        while isinstance(x, ast.Call) and isinstance(x.func, ast.Attribute) and x.func.attr in ("sum", "log", "abs", "diagonal", "diag"):
            had.add(x.func.attr)
            x = x.func.value
        if {"sum", "log"} <= had and ("diagonal" in had or "diag" in had):
            kind = root_of_p(x)
            if kind == "cholesky":
                return Fraction(1, 2), "logdet_p"
            return Fraction(1), ("summed log-diagonal of `%s`, which is not known to be triangular (a root of S_p from root_decomposition() may be a general or rectangular factor: its diagonal says nothing about |S_p|)" % norm(x)[:50]
                                 if kind == "root" else "summed log-diagonal of `%s`" % norm(x)[:40])
        return Fraction(1), "`%s`" % norm(e0)[:50]

    def _num(e: ast.AST) -> Optional[Fraction]:
        if isinstance(e, ast.Constant) and isinstance(e.value, (int, float)) and not isinstance(e.value, bool):
            return Fraction(e.value).limit_denominator(1000)
        if isinstance(e, ast.UnaryOp) and isinstance(e.op, ast.USub):
            v = _num(e.operand)
            return None if v is None else -v
        return None

    def terms(e: ast.AST, coef: Fraction) -> List[Tuple[Fraction, str]]:
        if isinstance(e, ast.BinOp) and isinstance(e.op, (ast.Add, ast.Sub)):
            return terms(e.left, coef) + terms(e.right, coef if isinstance(e.op, ast.Add) else -coef)
        if isinstance(e, ast.BinOp) and isinstance(e.op, ast.Mult):
            for x, y in ((e.left, e.right), (e.right, e.left)):
                k = _num(x)
                if k is not None:
                    return terms(y, coef * k)
        if isinstance(e, ast.BinOp) and isinstance(e.op, ast.Div) and _num(e.right) not in (None, 0):
            return terms(e.left, coef / _num(e.right))
        if isinstance(e, ast.Call) and isinstance(e.func, ast.Name) and e.func.id == "sum" and len(e.args) == 1 and isinstance(e.args[0], (ast.List, ast.Tuple)):
            out = []
            for x in e.args[0].elts:
                out += terms(x, coef)
            return out
        c, a = atom(e)
        return [(coef * c, a)]

    want = {"logdet_q": Fraction(1, 2), "logdet_p": Fraction(-1, 2), "trace_quad": Fraction(1, 2), "k": Fraction(-1, 2)}
    probs = set()
    npaths = 0
    for path, seq in walk_paths(fi):
        if path.outcome != "return" or path.end is None or getattr(path.end, "value", None) is None:
            continue
        env = {}
        for st, e_ in seq:
            if st is path.end:
                env = e_
        r = inline(path.end.value, env)
        npaths += 1
        got: Dict[str, Fraction] = {}
        for c, a in terms(r, Fraction(1)):
            got[a] = got.get(a, Fraction(0)) + c
        got = {k: v for k, v in got.items() if v != 0}
        if got != want:
            extra = ["%s%s * %s" % ("+" if v > 0 else "", v, k) for k, v in sorted(got.items()) if want.get(k) != v]
            missing = [k for k in want if k not in got]
            probs.add("the result contains %s%s" % ("; ".join(extra)[:300], (" and lacks " + ", ".join(missing)) if missing else ""))
    rep.add("C10-8", "%s:kl_mvn_mvn" % fi.module.name, fi.where, npaths > 0 and not probs,
            "1/2 [logdet(S_q) - logdet(S_p) + trace/quadratic form of S_q^-1 against [m_p - m_q | root of S_p] - k] on %d returning path(s)" % npaths if npaths > 0 and not probs else "; ".join(sorted(probs)) or "no returning path", {})
    rep.floor("C10-8", "KL assembly", 1, 1)


# ---- C10-9 ---------------------------------------------------------------------------------------------------------
def conditional_attributes(idx: ProgramIndex, rep: Report):
    """MultivariateNormal keeps two representations: attributes that __init__ assigns only under `if self._islazy` exist only for lazily
    represented covariances.  Every read of such an attribute in the class hierarchy must sit under a test of the same condition (or of a
    property that returns it); everything else goes through the accessor that knows both representations (lazy_covariance_matrix)."""
    rep.rule("C10-9", "attributes that the constructor assigns only for one representation (under `if self._islazy`) are read only under a test of that condition: methods of the distribution hierarchy work for dense and lazy covariances alike")
    M = idx.cls(MOD, "MultivariateNormal")
    init = idx.method(M, "__init__", own=True)
    sn = init.params[0]
    cond_attrs: Dict[str, str] = {}

    cov_param = "covariance_matrix"
    if cov_param not in init.params:
        raise AnalysisError("C10-9: MultivariateNormal.__init__ has no covariance_matrix parameter (anchor vanished)")

    def assigned(stmts, only_representation=False) -> Set[str]:
        out = set()
        for st in stmts:
            for a in ast.walk(st):
                if isinstance(a, ast.Assign):
                    for t in a.targets:
                        if isinstance(t, ast.Attribute) and chain(t.value) == sn:
                            # the representation of the covariance: the value is (derived from) the covariance argument; everything else
                            # (loc, _validate_args, ...) is what torch's own constructor provides in the other branch
                            if only_representation and not any(isinstance(x, ast.Name) and x.id == cov_param for x in ast.walk(a.value)):
                                continue
                            out.add(t.attr)
        return out
    everywhere = set()
    for st in body_without_docstring(init.node):
        if isinstance(st, ast.If):
            b, o = assigned(st.body, only_representation=True), assigned(st.orelse)
            for a_ in b - o:
                cond_attrs[a_] = norm(st.test)
        else:
            everywhere |= assigned([st])
    cond_attrs = {k: v for k, v in cond_attrs.items() if k not in everywhere and not k.startswith("__") and not k.startswith("_MultivariateNormal__")}
    if not cond_attrs:
        raise AnalysisError("C10-9: MultivariateNormal.__init__ no longer assigns an attribute for one representation only (anchor vanished)")
    n = 0
    seen_keys = set()
    classes = [M] + list(idx.subclasses(M))
    for attr, cond in sorted(cond_attrs.items()):
        # equivalent tests: the condition itself and properties that return it
        equiv = {cond}
        for name, m in M.all_methods().items():
            if m.kind == "property":
                rets = [r.value for r in ast.walk(m.node) if isinstance(r, ast.Return) and r.value is not None]
                if rets and all(norm(r) == cond for r in rets):
                    equiv.add("%s.%s" % (sn, name))
        for cls in sorted(classes, key=lambda c: c.qualname):
            for name, m in sorted(cls.methods.items()):
                if m is init:
                    continue
                me = m.params[0] if m.params else None
                for x in ast.walk(m.node):
                    if not (isinstance(x, ast.Attribute) and x.attr == attr and isinstance(x.value, ast.Name) and x.value.id == me and isinstance(x.ctx, ast.Load)):
                        continue
                    key = (cls.qualname, name, attr)
                    if key in seen_keys:
                        continue
                    seen_keys.add(key)
                    n += 1
                    tests = []
                    for t, br in _tests_around(m.node, x):
                        while isinstance(t, ast.UnaryOp) and isinstance(t.op, ast.Not):
                            t, br = t.operand, not br
                        if br:
                            tests.append(norm(t).replace(me + ".", sn + "."))
                    ok = any(t in equiv for t in tests)
                    rep.add("C10-9", "%s:%s.%s[reads self.%s]" % (cls.module.name, cls.qualname, name, attr), "%s:%d" % (m.module.relpath, x.lineno), ok,
                            "read under `%s`" % sorted(equiv)[0] if ok else
                            "self.%s is assigned by MultivariateNormal.__init__ only under `%s` (lazily represented covariances); %s.%s reads it without that test: for a distribution built from a plain tensor the attribute does not exist (AttributeError)" % (attr, cond, cls.qualname, name), {})
    rep.floor("C10-9", "reads of representation-specific attributes", n, 4)


def _tests_around(fn: ast.AST, target: ast.AST):
    """[(test, in_true_branch)] of the enclosing if statements / conditional expressions"""
    out = []

    def rec(node, acc) -> bool:
        if node is target:
            out.extend(acc)
            return True
        if isinstance(node, ast.If):
            if rec(node.test, acc):
                return True
            for st in node.body:
                if rec(st, acc + [(node.test, True)]):
                    return True
            for st in node.orelse:
                if rec(st, acc + [(node.test, False)]):
                    return True
            return False
        if isinstance(node, ast.IfExp):
            return rec(node.test, acc) or rec(node.body, acc + [(node.test, True)]) or rec(node.orelse, acc + [(node.test, False)])
        for ch in ast.iter_child_nodes(node):
            if rec(ch, acc):
                return True
        return False
    rec(fn, [])
    return out


# ---- C10-10 --------------------------------------------------------------------------------------------------------
def getitem_index_forms(idx: ProgramIndex, rep: Report, M: ClassInfo):
    """Two facts about index expressions that the dimension bookkeeping of MultivariateNormal.__getitem__ depends on:
    (a) advanced indices (tensors, lists) that share one subscript are zipped element-wise: the caller's batch indices (`*rest_idx`)
        may contain index tensors, so an event index TENSOR must not share a subscript with them - the covariance rows would be paired
        with batch members while the columns are not;
    (b) `None` entries add a dimension instead of consuming one: before `len(idx)` is compared with the rank of the mean they have to be
        taken out (or rejected)."""
    rep.rule("C10-10", "MultivariateNormal.__getitem__: an event index tensor never shares a subscript with the caller's batch indices, and None entries are not counted as indexed dimensions")
    fi = idx.method(M, "__getitem__", own=True)
    ip = fi.params[1]
    # the names split off the caller's index
    rest = last = None
    for a in ast.walk(fi.node):
        if isinstance(a, ast.Assign) and isinstance(a.targets[0], ast.Name) and isinstance(a.value, ast.Subscript) and isinstance(a.value.value, ast.Name) and a.value.value.id == ip:
            sl = a.value.slice
            if isinstance(sl, ast.Slice) and sl.lower is None and src(sl.upper) == "-1":
                rest = a.targets[0].id
            elif src(sl) == "-1":
                last = a.targets[0].id
    if rest is None or last is None:
        raise AnalysisError("C10-10: MultivariateNormal.__getitem__ no longer splits the index into idx[:-1] and idx[-1] (anchor vanished)")
    n = 0
    for x in ast.walk(fi.node):
        if not (isinstance(x, ast.Subscript) and isinstance(x.slice, ast.Tuple)):
            continue
        elts = x.slice.elts
        if not any(isinstance(e, ast.Starred) and isinstance(e.value, ast.Name) and e.value.id == rest for e in elts):
            continue
        if not any(isinstance(e, ast.Name) and e.id == last for e in elts):
            continue
        n += 1
        # what is known about the event index here
        known = []
        for t, br in _tests_around(fi.node, x):
            if not br:
                continue
            parts = t.values if isinstance(t, ast.BoolOp) and isinstance(t.op, ast.And) else [t]
            for q in parts:  # (a disjunction does not establish any of its members)
                if isinstance(q, ast.Call) and isinstance(q.func, ast.Name) and q.func.id == "isinstance" and len(q.args) == 2 and src(q.args[0]) == last:
                    known.append(norm(q))
        ok = any("int" in k or "slice" in k for k in known)
        anon = norm(x).replace(rest, "_").replace(last, "_")
        rep.add("C10-10", "%s:MultivariateNormal.__getitem__[batch apart: %s]" % (M.module.name, anon[:70]), "%s:%d" % (fi.module.relpath, x.lineno), ok,
                "the event index is an integer or a slice on this path (%s)" % "; ".join(known) if ok else
                "`%s` applies the caller's batch indices and the event index `%s` - a tensor or list on this path - in one subscript: an index tensor over a batch dimension is zipped with the rows, the columns are then indexed alone (`[..., %s]`): the covariance is not symmetric and not the covariance of the selected components" % (norm(x)[:70], last, last), {})
    rep.floor("C10-10", "covariance subscripts with batch and event indices", n, 2)
    # (b)
    first_len = min([c.lineno for c in ast.walk(fi.node) if isinstance(c, ast.Call) and isinstance(c.func, ast.Name) and c.func.id == "len" and c.args and src(c.args[0]) == ip] or [0])
    handles_none = any((isinstance(c, ast.Compare) and any(isinstance(o, (ast.Is, ast.IsNot, ast.In, ast.NotIn)) for o in c.ops) and any(isinstance(k, ast.Constant) and k.value is None for k in [c.left] + c.comparators))
                       for c in ast.walk(fi.node))
    rep.add("C10-10", "%s:MultivariateNormal.__getitem__[None entries]" % M.module.name, "%s:%d" % (fi.module.relpath, first_len or fi.node.lineno), handles_none,
            "None entries are handled before the index is counted" if handles_none else
            "len(%s) is compared with the rank of the mean although a None entry (new axis) adds a dimension instead of consuming one: dist[None, 0] (batch (3,)) takes the branch for an indexed event dimension and returns diag(diag(C[0])) - all cross-covariances dropped, silently; other placements raise" % ip, {})


# ---- C10-11 --------------------------------------------------------------------------------------------------------
def scale_tril_is_triangular(idx: ProgramIndex, rep: Report, M: ClassInfo):
    """torch's MultivariateNormal computes log_prob, entropy, scale_tril and precision_matrix from `_unbroadcasted_scale_tril` with
    TRIANGULAR solves and reads log|S| off its diagonal; expand / unsqueeze hand the factor on.  For lazily represented covariances
    gpytorch fills that slot itself: what it stores there has to be a Cholesky factor.  A general root (root_decomposition().root) is the same
    matrix for dense / diagonal / sum operators of ordinary size - which go through Cholesky - but not for RootLinearOperator(R) with a
    non-triangular R, low-rank or Lanczos roots."""
    rep.rule("C10-11", "what a lazy MultivariateNormal stores as the scale_tril of torch's distribution is a Cholesky (triangular) factor of the covariance, not a general root")
    getter = None
    for f in idx.all_functions():
        if f.cls is M and f.name == "_unbroadcasted_scale_tril" and not any("setter" in src(d) for d in f.node.decorator_list):
            getter = f
    if getter is None:
        raise AnalysisError("C10-11: MultivariateNormal._unbroadcasted_scale_tril getter vanished (anchor)")
    stores = [a for a in ast.walk(getter.node) if isinstance(a, ast.Assign) and any(isinstance(t, ast.Attribute) and "unbroadcasted_scale_tril" in t.attr for t in a.targets)]
    if not stores:
        raise AnalysisError("C10-11: the getter no longer fills the scale_tril slot (anchor)")
    probs = []
    for a in stores:
        exprs, seen = [a.value], set()
        k = 0
        while k < len(exprs):
            e = exprs[k]
            k += 1
            for x in ast.walk(e):
                if isinstance(x, ast.Name) and x.id not in seen:
                    seen.add(x.id)
                    exprs += [q.value for q in ast.walk(getter.node) if isinstance(q, ast.Assign) and any(isinstance(t, ast.Name) and t.id == x.id for t in q.targets)]
        calls = [c for e in exprs for c in ast.walk(e) if isinstance(c, ast.Call)]
        chol = any((isinstance(c.func, ast.Attribute) and c.func.attr == "cholesky") or (chain(c.func) or "").split(".")[-1] == "psd_safe_cholesky" for c in calls)
        root = [c for c in calls if isinstance(c.func, ast.Attribute) and c.func.attr in ("root_decomposition", "root_inv_decomposition")] + [x for e in exprs for x in ast.walk(e) if isinstance(x, ast.Attribute) and x.attr == "root"]
        if root or not chol:
            probs.append("`%s`" % " ".join(src(a).split())[:80])
    rep.add("C10-11", "%s:MultivariateNormal._unbroadcasted_scale_tril[getter]" % M.module.name, getter.where, not probs,
            "the slot is filled with a Cholesky factor of the lazy covariance" if not probs else
            "%s fills the scale_tril slot of torch's MultivariateNormal with a general root: log_prob on the Cholesky path, entropy, scale_tril, precision_matrix (and everything after expand / unsqueeze) treat it as triangular - wrong values for RootLinearOperator(R) with a non-triangular R, an error for a non-square root" % "; ".join(probs), {})
    rep.floor("C10-11", "scale_tril slot", 1, 1)


# ---- C10-12 --------------------------------------------------------------------------------------------------------
_MAKES_CONTIGUOUS = {"contiguous", "clone", "reshape", "flatten", "to_dense"}


def argument_reshapes(idx: ProgramIndex, rep: Report, M: ClassInfo):
    """The caller's base samples are documented only by their shape (*sample_shape x *batch_shape x N).  (a) `.view` additionally needs
    compatible strides: an expanded or transposed tensor of the documented shape makes it raise - arguments are re-shaped with reshape
    (or made contiguous first).  (b) A re-shape that folds the leading dimensions (`-1, ..., LAST`) keeps the elements of one base
    vector together only if LAST is the argument's own trailing size; taking it from another tensor (the covariance root, whose width is
    smaller for low-rank / Lanczos roots - the very case the code adjusts for afterwards) regroups the numbers or fails."""
    rep.rule("C10-12", "tensor arguments of the sampling methods are re-shaped by shape only: no .view on the caller's (possibly non-contiguous) tensor, and a fold of the leading dimensions keeps the argument's own trailing size")
    classes = [M] + [c for c in idx.subclasses(M) if c is not M]
    n = 0
    for cls in classes:
        for name in ("rsample", "sample", "log_prob", "get_base_samples"):
            fi = cls.methods.get(name)
            if fi is None:
                continue
            params = set(fi.params[1:]) | {a.arg for a in fi.node.args.kwonlyargs}
            if not params:
                continue
            # line of the first statement after which the name holds a contiguous tensor of its own
            safe_from: Dict[str, int] = {}
            for a in ast.walk(fi.node):
                if isinstance(a, ast.Assign) and len(a.targets) == 1 and isinstance(a.targets[0], ast.Name) and a.targets[0].id in params:
                    outer = a.value
                    if isinstance(outer, ast.Call) and isinstance(outer.func, ast.Attribute) and outer.func.attr in _MAKES_CONTIGUOUS:
                        safe_from.setdefault(a.targets[0].id, a.lineno)
            for c in ast.walk(fi.node):
                if not (isinstance(c, ast.Call) and isinstance(c.func, ast.Attribute) and c.func.attr in ("view", "reshape") and isinstance(c.func.value, ast.Name) and c.func.value.id in params):
                    continue
                p = c.func.value.id
                n += 1
                probs = []
                if c.func.attr == "view" and not (p in safe_from and safe_from[p] < c.lineno):
                    probs.append("`%s.view(...)` needs compatible strides: an expanded / transposed tensor of the documented shape raises (use reshape)" % p)
                if c.args and isinstance(c.args[0], ast.UnaryOp) and isinstance(c.args[0].op, ast.USub) and len(c.args) >= 2:
                    last = c.args[-1]
                    foreign = [x for x in ast.walk(last) if isinstance(x, ast.Name) and x.id not in params and x.id != fi.params[0]]
                    own = any(isinstance(x, ast.Name) and x.id == p for x in ast.walk(last))
                    if foreign and not own and not isinstance(last, ast.Starred):
                        probs.append("the fold of the leading dimensions takes its trailing size from `%s`, not from `%s` itself: whenever the two differ (a root narrower than the event size) the base vectors are regrouped or the call raises" % (src(last), p))
                rep.add("C10-12", "%s:%s.%s[%s.%s]" % (cls.module.name, cls.qualname, name, p, c.func.attr), "%s:%d" % (fi.module.relpath, c.lineno), not probs,
                        "re-shaped by shape only" if not probs else "; ".join(probs), {})
    rep.floor("C10-12", "re-shapes of tensor arguments in the sampling methods", n, 2)


# ---- C10-13 --------------------------------------------------------------------------------------------------------
def initialises_what_it_creates(idx: ProgramIndex, rep: Report):
    """expand / unsqueeze of the distribution classes create the result with `_get_checked_instance` / `__new__` and run torch's
    constructor on it explicitly: `super(Cls, new).__init__(...)`.  The zero-argument form `super().__init__(...)` (or self.__init__)
    inside such a method initialises the RECEIVER: d.expand((3,)) changes d.batch_shape and returns an object without _batch_shape."""
    rep.rule("C10-13", "a distribution method that creates its result (expand, unsqueeze, ...) runs the base constructor on the new object, never on the receiver")
    n = 0
    for mi in sorted(idx.modules.values(), key=lambda m: m.name):
        if not mi.name.startswith(idx.package + ".distributions"):
            continue
        # every class of the module, including fall-back classes defined under try / except ImportError
        for cdef in [x for x in ast.walk(mi.tree) if isinstance(x, ast.ClassDef)]:
            for fdef in [x for x in cdef.body if isinstance(x, ast.FunctionDef)]:
                if fdef.name == "__init__" or not fdef.args.args:
                    continue
                sn = fdef.args.args[0].arg
                nested = {id(x) for d in ast.walk(fdef) if isinstance(d, (ast.FunctionDef, ast.ClassDef)) and d is not fdef for x in ast.walk(d)}
                for c in ast.walk(fdef):
                    if id(c) in nested or not (isinstance(c, ast.Call) and isinstance(c.func, ast.Attribute) and c.func.attr == "__init__"):
                        continue
                    n += 1
                    recv = c.func.value
                    on_self = (isinstance(recv, ast.Name) and recv.id == sn) or \
                        (isinstance(recv, ast.Call) and chain(recv.func) == "super" and (len(recv.args) == 0 or (len(recv.args) == 2 and isinstance(recv.args[1], ast.Name) and recv.args[1].id == sn)))
                    rep.add("C10-13", "%s:%s.%s[__init__ call]" % (mi.name, cdef.name, fdef.name), "%s:%d" % (mi.relpath, c.lineno), not on_self,
                            "the constructor runs on the object the method created" if not on_self else
                            "`%s` re-initialises the receiver: d.%s(...) changes d itself (its batch shape) and the returned object never gets the state the constructor sets (AttributeError on batch_shape / log_prob)" % (src(c)[:60], fdef.name), {})
    rep.floor("C10-13", "constructor calls inside non-constructor methods of the distribution classes", n, 3)


# ---- C10-14 --------------------------------------------------------------------------------------------------------
def reflected_scalar_operators(idx: ProgramIndex, rep: Report, M: ClassInfo):
    """`*` and `+` with a scalar act on the random vector whichever side the scalar stands on.  Python tries the reflected method when the
    left operand is a number: a class that defines __mul__ / __add__ for scalars has to define __rmul__ / __radd__ (delegating, both
    operations are commutative), otherwise `2 * d` raises TypeError where `d * 2` works."""
    rep.rule("C10-14", "scalar arithmetic is defined from both sides: __add__ / __mul__ with numbers have reflected counterparts __radd__ / __rmul__ that delegate to them")
    n = 0
    for op, rop in (("__add__", "__radd__"), ("__mul__", "__rmul__")):
        f = M.methods.get(op)
        if f is None:
            continue
        handles_numbers = any(isinstance(c, ast.Call) and chain(c.func) == "isinstance" and any(isinstance(x, ast.Name) and x.id in ("int", "float", "Number") for x in ast.walk(c)) for c in ast.walk(f.node))
        if not handles_numbers:
            continue
        n += 1
        r = M.methods.get(rop)
        ok = r is not None and any(isinstance(c.func, ast.Attribute) and c.func.attr == op for c in calls_in(r.node))
        rep.add("C10-14", "%s:MultivariateNormal.%s" % (M.module.name, rop), (r or f).where, ok,
                "%s delegates to %s" % (rop, op) if ok else
                ("%s accepts numbers but %s is not defined: `2 * d`, `2.5 * d` raise TypeError (unsupported operand) where `d * 2` scales the random vector" % (op, rop) if r is None else "%s does not delegate to %s" % (rop, op)), {})
    rep.floor("C10-14", "scalar operators", n, 2)
