"""C01 - exact GP posterior: structural clauses only.

C01-1  block typing: in every exact_prediction the predictive mean receives (NEW vector, NEW x OLD) and the predictive
       covariance (NEW x NEW, NEW x OLD), where OLD/NEW are the train/test blocks of the joint prior split at num_train
C01-2  train-first concatenation in ExactGP.__call__ (agrees with the num_train split)
C01-3  the prediction runs inside the eval CG-tolerance scope
C01-4  mode dispatch is total and ordered; the prediction strategy is built from the training data and only when absent
C01-5  the consumers respect the roles: mean = test_mean + K*x @ mean_cache; covariance = K** minus a correction term
Does not decide the numerical identity with the closed-form conditional.  (DESIGN.md section 4, C01.)
"""
from __future__ import annotations

import ast
from typing import Dict, List, Optional, Set, Tuple

from ..cfg import enumerate_paths, RETURN, FALL, RAISE
from ..domains.blocks import ALL, NEW, OLD, BlockEval, show
from ..index import (AnalysisError, ClassInfo, FuncInfo, ProgramIndex, body_without_docstring, call_name, calls_in, chain,
                     const_str, is_super_call, norm, src, walk_no_nested)
from ..report import Report


def run(idx: ProgramIndex, rep: Report, tier: str):
    rep.explanation = (
        "Abstract block-range typing of every exact_prediction implementation (joint mean: ALL vector, joint covariance: ALL x ALL; "
        "subscripts bounded by num_train refine rows/columns to the training (OLD) or test (NEW) block, path by path including the "
        "eager branch): exact_predictive_mean must receive (NEW, NEW x OLD) and exact_predictive_covar (NEW x NEW, NEW x OLD). "
        "Provenance analysis of the input concatenation in ExactGP.__call__ (training inputs first), scope analysis of the "
        "prediction call (inside `with settings.cg_tolerance(settings.eval_cg_tolerance.value())`), and dispatch analysis "
        "(training -> prior with equality check; prior_mode/missing data -> prior; else posterior, strategy built only when None from "
        "train_inputs, the prior on them, train_targets and the likelihood). The numerical identity is not decided.")
    rep.rule("C01-1", "exact_prediction hands the test mean and the test x train / test x test blocks of the joint prior to the predictive mean / covariance")
    rep.rule("C01-2", "joint inputs are the training inputs followed by the test inputs (agrees with the num_train split)")
    rep.rule("C01-3", "the prediction runs inside the eval CG-tolerance scope")
    rep.rule("C01-4", "mode dispatch is total and ordered; the strategy is built from the training data and only when absent")
    rep.rule("C01-6", "no in-place aliasing hazard on the prediction path: no operand is overwritten through a view by a later operand, no stale reads, the caller's tensors are not written")
    rep.rule("C01-5", "predictive mean adds the test prior mean once (the covariance correction is C01-7)")
    block_typing(idx, rep)
    call_structure(idx, rep)
    consumer_roles(idx, rep)
    aliasing(idx, rep)
    closed_form_assembly(idx, rep)
    factor_orientation(idx, rep)


# ---- C01-1 ---------------------------------------------------------------------------------------------------------
def block_typing(idx: ProgramIndex, rep: Report):
    D = idx.find_class("DefaultPredictionStrategy")
    n = 0
    for cls in idx.subclasses(D):
        fi = cls.methods.get("exact_prediction")
        if fi is None:
            continue
        n += 1
        sn, pm, pc = fi.params[0], fi.params[1], fi.params[2]
        inst = "%s:%s.exact_prediction" % (cls.module.name, cls.qualname)
        probs: List[str] = []
        npaths = 0
        for p in enumerate_paths(body_without_docstring(fi.node)):
            if p.outcome != RETURN:
                continue
            npaths += 1
            be = BlockEval({"%s.num_train" % sn}, {pm: ("vec", ALL), pc: ("mat", ALL, ALL)})
            ret = None
            for s in p.steps:
                if s.kind != "stmt":
                    continue
                st = s.node
                if isinstance(st, ast.Assign) and len(st.targets) == 1:
                    v = st.value
                    # re-construction of a lazy tensor from the fields of a typed one keeps its block type
                    if isinstance(v, ast.Call) and src(v.func) == "LazyEvaluatedKernelTensor" and v.args and isinstance(v.args[0], ast.Attribute) and isinstance(v.args[0].value, ast.Name) and v.args[0].value.id in be.env:
                        continue
                    # ... and so does a kernel evaluated on the inputs (x1, x2) of a typed tensor: rows from its x1, columns from its x2
                    if isinstance(v, ast.Call) and len(v.args) >= 2 and all(isinstance(a, ast.Attribute) and isinstance(a.value, ast.Name) for a in v.args[:2]) \
                            and (v.args[0].attr, v.args[1].attr) == ("x1", "x2") and v.args[0].value.id == v.args[1].value.id and v.args[0].value.id in be.env \
                            and isinstance(st.targets[0], ast.Name) and st.targets[0].id == v.args[0].value.id:
                        continue
                    be.assign(st.targets[0], v)
                elif isinstance(st, ast.Return):
                    ret = st.value
            calls = {}
            if ret is not None:
                for c in ast.walk(ret):
                    if isinstance(c, ast.Call) and chain(c.func) in ("%s.exact_predictive_mean" % sn, "%s.exact_predictive_covar" % sn):
                        calls[c.func.attr] = c
            if set(calls) != {"exact_predictive_mean", "exact_predictive_covar"}:
                probs.append("a path does not return (exact_predictive_mean(...), exact_predictive_covar(...))")
                continue
            order = [c.func.attr for c in ast.walk(ret) if isinstance(c, ast.Call) and c in calls.values()]
            if isinstance(ret, ast.Tuple) and [src(e.func).split(".")[-1] for e in ret.elts if isinstance(e, ast.Call)] != ["exact_predictive_mean", "exact_predictive_covar"]:
                probs.append("the returned tuple is not (mean, covariance)")
            want = {
                "exact_predictive_mean": [("vec", NEW), ("mat", NEW, OLD)],
                "exact_predictive_covar": [("mat", NEW, NEW), ("mat", NEW, OLD)],
            }
            for name, c in calls.items():
                for i, (a, w) in enumerate(zip(c.args, want[name])):
                    got = be.ev(a)
                    if got != w:
                        probs.append("%s argument %d (`%s`) is typed `%s`, expected `%s`" % (name, i + 1, src(a), show(got), show(w)))
        rep.add("C01-1", inst, fi.where, not probs and npaths > 0,
                "on all %d path(s): mean <- (test vector, test x train), covariance <- (test x test, test x train)" % npaths if not probs else "; ".join(sorted(set(probs))), {"paths": npaths})
    rep.floor("C01-1", "exact_prediction implementations", n, 4)


# ---- C01-2 .. C01-4 ------------------------------------------------------------------------------------------------
def call_structure(idx: ProgramIndex, rep: Report):
    E = idx.find_class("ExactGP")
    fi = idx.method(E, "__call__", own=True)
    sn = fi.params[0]
    inst = "%s:ExactGP.__call__" % E.module.name
    # locals derived from self.train_inputs / from *args
    args_name = fi.node.args.vararg.arg if fi.node.args.vararg else None
    derived_train: Set[str] = set()
    derived_args: Set[str] = {args_name} if args_name else set()
    changed = True
    nodes = list(ast.walk(fi.node))
    while changed:
        changed = False
        for n in nodes:
            pairs = []
            if isinstance(n, ast.Assign) and len(n.targets) == 1:
                pairs.append((n.targets[0], n.value))
            if isinstance(n, (ast.For, ast.comprehension)):
                it = n.iter
                if isinstance(it, ast.Call) and (chain(it.func) or "").split(".")[-1] in ("zip", "length_safe_zip") and isinstance(n.target, ast.Tuple):
                    for t, a in zip(n.target.elts, it.args):
                        pairs.append((t, a))
                else:
                    pairs.append((n.target, it))
            for t, v in pairs:
                names = {x.id for x in ast.walk(v) if isinstance(x, ast.Name)}
                attrs = {chain(x) for x in ast.walk(v) if isinstance(x, ast.Attribute)}
                tn = [x.id for x in ast.walk(t) if isinstance(x, ast.Name)]
                from_train = ("%s.train_inputs" % sn in attrs) or bool(names & derived_train)
                from_args = bool(names & derived_args)
                for nm in tn:
                    if from_train and not from_args and nm not in derived_train:
                        derived_train.add(nm)
                        changed = True
                    if from_args and not from_train and nm not in derived_args:
                        derived_args.add(nm)
                        changed = True
    cats = [c for c in calls_in(fi.node) if chain(c.func) == "torch.cat" and c.args and isinstance(c.args[0], (ast.List, ast.Tuple))]
    ok = len(cats) == 1
    detail = ""
    if ok:
        elts = cats[0].args[0].elts
        dim = [k.value for k in cats[0].keywords if k.arg == "dim"]
        first = {x.id for x in ast.walk(elts[0]) if isinstance(x, ast.Name)}
        second = {x.id for x in ast.walk(elts[1]) if isinstance(x, ast.Name)} if len(elts) > 1 else set()
        ok = len(elts) == 2 and bool(first & derived_train) and not (first & derived_args) and bool(second & derived_args) and not (second & derived_train) and bool(dim) and src(dim[0]) == "-2"
        detail = "torch.cat([%s, %s], dim=-2): training inputs first" % (src(elts[0]), src(elts[1]) if len(elts) > 1 else "?")
    rep.add("C01-2", inst + "[concatenation]", fi.where, ok, detail if ok else "the joint inputs are not `torch.cat([<training input>, <test input>], dim=-2)`: the num_train split of the joint prior would select the wrong block", {})
    # C01-3: scope of the prediction
    pred_calls = [c for c in calls_in(fi.node) if isinstance(c.func, ast.Attribute) and c.func.attr == "exact_prediction"]
    in_scope = False
    for w in ast.walk(fi.node):
        if isinstance(w, ast.With):
            for it in w.items:
                e = it.context_expr
                if isinstance(e, ast.Call) and (chain(e.func) or "").endswith("cg_tolerance") and not (chain(e.func) or "").endswith("eval_cg_tolerance") and e.args and "eval_cg_tolerance.value()" in src(e.args[0]):
                    if all(any(c is x for x in ast.walk(w)) for c in pred_calls) and pred_calls:
                        in_scope = True
    rep.add("C01-3", inst + "[tolerance scope]", fi.where, in_scope, "exact_prediction is called inside `with settings.cg_tolerance(settings.eval_cg_tolerance.value())`" if in_scope else
            "the prediction is not made inside the eval CG tolerance scope: iterative solves run at the loose training tolerance", {"prediction_calls": len(pred_calls)})
    # C01-4: dispatch
    top_ifs = [s for s in body_without_docstring(fi.node) if isinstance(s, ast.If)]
    probs = []
    chain_if = None
    for s in top_ifs:
        if src(s.test) == "%s.training" % sn:
            chain_if = s
    if chain_if is None:
        probs.append("no top-level dispatch on self.training")
    else:
        # training branch: delegates to forward on the given inputs and returns
        tb = chain_if.body
        if not any(isinstance(n, ast.Return) for n in tb):
            probs.append("training branch does not return the prior")
        if not any(isinstance(c, ast.Call) and is_super_call(c, "__call__") for n in tb for c in ast.walk(n)):
            probs.append("training branch does not evaluate the prior through super().__call__")
        if not any("torch.equal" in src(n) and "raise" in src(n) for n in tb):
            probs.append("training branch lost the debug check that the inputs are the training inputs")
        el = chain_if.orelse
        if not (len(el) == 1 and isinstance(el[0], ast.If)):
            probs.append("no prior-mode branch after the training branch")
        else:
            pm = el[0]
            t = src(pm.test)
            for need in ("prior_mode.on()", "%s.train_inputs is None" % sn, "%s.train_targets is None" % sn):
                if need not in t:
                    probs.append("prior-mode test lost the disjunct `%s`" % need)
            if " and " in t:
                probs.append("prior-mode test is no longer a pure disjunction")
            if not any(isinstance(n, ast.Return) for n in pm.body):
                probs.append("prior-mode branch does not return")
            post = pm.orelse
            if not post:
                probs.append("no posterior branch")
            else:
                # strategy construction guarded by `is None`, from the right ingredients
                built = False
                for n in ast.walk(ast.Module(body=post, type_ignores=[])):
                    if isinstance(n, ast.If) and src(n.test) == "%s.prediction_strategy is None" % sn:
                        for a in ast.walk(n):
                            if isinstance(a, ast.Assign) and any(src(t) == "%s.prediction_strategy" % sn for t in a.targets) and isinstance(a.value, ast.Call):
                                kw = {k.arg: src(k.value) for k in a.value.keywords}
                                pos = [src(x) for x in a.value.args]
                                vals = list(kw.values()) + pos
                                built = True
                                tr_out = [x.targets[0].id for x in ast.walk(n) if isinstance(x, ast.Assign) and isinstance(x.value, ast.Call) and is_super_call(x.value, "__call__") and isinstance(x.targets[0], ast.Name)
                                          and any(isinstance(g, ast.Starred) and isinstance(g.value, ast.Name) and g.value.id in derived_train for g in x.value.args)]
                                if not tr_out or tr_out[0] not in vals:
                                    probs.append("the strategy is not built from the prior evaluated on the training inputs")
                                if "%s.train_targets" % sn not in vals:
                                    probs.append("the strategy is not built from self.train_targets")
                                if "%s.likelihood" % sn not in vals:
                                    probs.append("the strategy is not built from self.likelihood")
                                if not any(v in derived_train for v in vals):
                                    probs.append("the strategy is not built from the training inputs")
                if not built:
                    probs.append("the prediction strategy is not (re)built under `if self.prediction_strategy is None`")
                # unconditional rebuilds would discard caches but stay correct; an unguarded *reuse* with new data is C03
    rep.add("C01-4", inst + "[dispatch]", fi.where, not probs, "training -> prior (with equality check); prior_mode or missing data -> prior; else posterior with the strategy built from the training data when absent" if not probs else "; ".join(probs), {})
    # result assembly
    # result assembly (decided on inlined definitions, so local names do not matter): the returned value is
    #   <joint prior>.__class__(<exact_prediction(...)>[0] up to shape-only methods, <exact_prediction(...)>[1])
    from ..symbolic import inline, walk_paths
    SHAPE = ("view", "reshape", "contiguous", "expand", "to", "squeeze", "unsqueeze")

    def strip_shape(e):
        while isinstance(e, ast.Call) and isinstance(e.func, ast.Attribute) and e.func.attr in SHAPE:
            e = e.func.value
        return e

    def component(e):
        e = strip_shape(e)
        if isinstance(e, ast.Subscript) and isinstance(e.slice, ast.Constant) and isinstance(e.value, ast.Call) and isinstance(e.value.func, ast.Attribute) and e.value.func.attr == "exact_prediction":
            return e.slice.value
        return None

    nres, bad = 0, []
    for path, seq in walk_paths(fi):
        for st, env in seq:
            if isinstance(st, ast.Return) and st.value is not None and isinstance(st.value, ast.Call) and isinstance(st.value.func, ast.Attribute) and st.value.func.attr == "__class__":
                nres += 1
                v = inline(st.value, env)
                joint = v.func.value
                if not (isinstance(joint, ast.Call) and isinstance(joint.func, ast.Attribute) and joint.func.attr == "__call__" and isinstance(joint.func.value, ast.Call) and chain(joint.func.value.func) == "super"):
                    bad.append("the class is not taken from the joint prior returned by super().__call__")
                comps = [component(a) for a in v.args]
                if comps != [0, 1]:
                    bad.append("the arguments are not (predictive mean, predictive covariance) of exact_prediction in that order (got components %s)" % comps)
    ok = nres >= 1 and not bad
    rep.add("C01-4", inst + "[result]", fi.where, ok, "returns the class of the joint prior built from (predictive mean, predictive covariance) of exact_prediction" if ok else ("the posterior is not returned as <joint prior>.__class__(predictive mean, predictive covariance): " + "; ".join(sorted(set(bad)) or ["no such return"])), {})


# ---- C01-5 ---------------------------------------------------------------------------------------------------------
def consumer_roles(idx: ProgramIndex, rep: Report):
    D = idx.find_class("DefaultPredictionStrategy")
    pm = idx.method(D, "exact_predictive_mean", own=True)
    tm, ttc = pm.params[1], pm.params[2]
    # affine form of the result on every path: +1 * (test x train @ mean cache) +1 * test prior mean
    from fractions import Fraction
    from ..domains.affine import Affine, AffineEval
    npaths = 0
    bad = []
    for p in enumerate_paths(body_without_docstring(pm.node)):
        if p.outcome != RETURN:
            continue
        npaths += 1

        def classify(e, tm=tm, ttc=ttc):
            if isinstance(e, ast.Name) and e.id == tm:
                return ("source", "TEST_MEAN")
            if isinstance(e, ast.BinOp) and isinstance(e.op, ast.MatMult):
                return ("source", "CROSS@CACHE" if src(e.left).startswith(ttc) else "OTHER_PRODUCT(%s)" % src(e)[:30])
            return None

        ae = AffineEval(classify)
        ret = None
        for st in p.steps:
            if st.kind != "stmt":
                continue
            n = st.node
            if isinstance(n, ast.Assign) and len(n.targets) == 1 and isinstance(n.targets[0], ast.Name):
                v = ae.ev(n.value)
                if v is not None or n.targets[0].id in ae.env:
                    ae.env[n.targets[0].id] = v
            elif isinstance(n, ast.AugAssign) and isinstance(n.target, ast.Name):
                ae.env[n.target.id] = ae.binop(n.op, ae.env.get(n.target.id), ae.ev(n.value), n)
            elif isinstance(n, ast.Return) and n.value is not None:
                ret = ae.ev(n.value)
        want = {("CROSS@CACHE", ()): Fraction(1), ("TEST_MEAN", ()): Fraction(1)}
        if not (isinstance(ret, Affine) and ret.terms == want):
            bad.append(ret.show() if isinstance(ret, Affine) else "unrecognised")
    ok = not bad
    rep.add("C01-5", "%s:DefaultPredictionStrategy.exact_predictive_mean" % D.module.name, pm.where, ok and npaths >= 3,
            "on all %d paths the result is +1*(test x train @ mean cache) +1*test prior mean" % npaths if ok else
            "the predictive mean is `%s` on a path, expected +CROSS@CACHE +TEST_MEAN (prior mean added exactly once)" % bad[0], {"paths": npaths})
    # the sign and shape of the covariance correction are decided by C01-7 (non-commutative normal form on inlined paths); the
    # earlier textual sign test ("is there a `.mul(-1)` / `alpha=-1` in the return statement") was removed: it mis-read a
    # correction whose negation is hoisted into a local (false alarm on a behaviour-preserving edit, seed C01c showed it)


# ---- C01-6 ---------------------------------------------------------------------------------------------------------
PREDICTION_METHODS = ("exact_prediction", "exact_predictive_mean", "exact_predictive_covar", "_mean_cache", "covar_cache", "mean_cache",
                      "_exact_predictive_covar_inv_quad_form_cache", "_exact_predictive_covar_inv_quad_form_root")


def aliasing(idx: ProgramIndex, rep: Report):
    """Storage/version abstract interpretation (the C19 domain) of the methods on the exact prediction path."""
    from .c19 import interp_function

    D = idx.find_class("DefaultPredictionStrategy")
    n = 0
    for cls in idx.subclasses(D):
        for name in PREDICTION_METHODS:
            fi = cls.methods.get(name)
            if fi is None:
                continue
            n += 1
            try:
                probs, npaths = interp_function(fi, "method", set(), {})
            except AnalysisError as e:
                rep.observe("C01-6", "%s:%s.%s" % (cls.module.name, cls.qualname, name), fi.where, "not analysed: %s" % str(e)[:80])
                continue
            probs = [p.replace("an input of the Function (autograd forbids it without mark_dirty; the caller's tensor is changed)", "an argument (the caller's tensor, e.g. a block of the joint prior or a cache, is changed)") for p in probs]
            rep.add("C01-6", "%s:%s.%s" % (cls.module.name, cls.qualname, name), fi.where, not probs and npaths > 0,
                    "on all %d path(s): no operand overwritten through an alias, no stale reads, arguments not written" % npaths if not probs else "; ".join(probs[:3]), {"paths": npaths})
    rep.floor("C01-6", "prediction-path methods interpreted", n, 15)


# ---- C01-7: the closed-form conditional, assembled (non-commutative affine normal forms) -----------------------------------
def closed_form_assembly(idx: ProgramIndex, rep: Report):
    """mean cache = (K + S)^-1 (y - m) with K + S and m taken from the *likelihood's marginal* of the training prior;
    predictive covariance = K** - K*x (K + S)^-1 Kx* (exact path) resp. K** - R R^T (cached-root path)."""
    from ..domains.linalg import LinEval, lin
    from ..symbolic import inline, walk_paths
    rep.rule("C01-7", "closed-form conditional: mean cache = (K+S)^-1 (y - m) from the likelihood's marginal of the training prior; covariance = K** - K*x (K+S)^-1 Kx* (non-commutative affine normal form)")
    D = idx.find_class("DefaultPredictionStrategy")
    sn = "self"

    def marginal_of_train_prior(e: ast.AST, zero_mean_ok: bool) -> bool:
        """self.likelihood(<train prior [with zero mean]>, self.train_inputs)"""
        if not (isinstance(e, ast.Call) and chain(e.func) == "%s.likelihood" % sn and e.args):
            return False
        a = e.args[0]
        if chain(a) == "%s.train_prior_dist" % sn:
            return True
        if zero_mean_ok and isinstance(a, ast.Call) and len(a.args) == 2 and chain(a.args[1]) == "%s.train_prior_dist.lazy_covariance_matrix" % sn:
            return True  # same covariance, zero mean: only the covariance of the marginal is used
        return False

    def classify_mc(e: ast.AST) -> Optional[str]:
        if isinstance(e, ast.Attribute) and e.attr in ("lazy_covariance_matrix", "covariance_matrix") and marginal_of_train_prior(e.value, True):
            return "KN"
        if isinstance(e, ast.Attribute) and e.attr in ("loc", "mean") and marginal_of_train_prior(e.value, False):
            return "MN"
        if chain(e) == "%s.train_labels" % sn:
            return "Y"
        return None

    # (a) the mean cache, 'ignore' branch (the branch taken without missing data)
    mc = idx.method(D, "_mean_cache", own=True)
    pol = [p for p in mc.params if "nan_policy" in p]
    want = lin({("KN^-1", "Y"): 1, ("KN^-1", "MN"): -1})
    n = 0
    probs = []
    for path, seq in walk_paths(mc):
        if not any(s_.kind == "assume" and s_.truth and pol and src(s_.node).replace("'", '"') == '%s == "ignore"' % pol[0] for s_ in path.steps):
            continue
        for st, env in seq:
            if isinstance(st, ast.Return) and st.value is not None:
                n += 1
                v = LinEval(classify_mc, {"KN"}).ev(inline(st.value, env))
                if v is None or v != want:
                    probs.append("mean cache is `%s`, expected `%s` (KN, MN: covariance and mean of self.likelihood(self.train_prior_dist, ...))" % (v.show() if v is not None else "not of matrix-affine shape", want.show()))
    rep.add("C01-7", "%s:DefaultPredictionStrategy._mean_cache[ignore]" % D.module.name, mc.where, n >= 1 and not probs,
            "(K+S)^-1 (y - m) with K+S and m from the likelihood's marginal of the training prior, on %d path(s)" % n if n >= 1 and not probs else "; ".join(sorted(set(probs))) or "no returning path for the 'ignore' policy", {"paths": n})

    # (b) the predictive covariance
    pc = idx.method(D, "exact_predictive_covar", own=True)
    ttc, tt = pc.params[1], pc.params[2]

    def classify_pc(e: ast.AST) -> Optional[str]:
        if isinstance(e, ast.Name) and e.id == ttc:
            return "TT"
        if isinstance(e, ast.Name) and e.id == tt:
            return "TX"
        if isinstance(e, ast.Attribute) and e.attr in ("lazy_covariance_matrix", "covariance_matrix") and marginal_of_train_prior(e.value, True):
            return "KN"
        if isinstance(e, ast.Call) and chain(e.func) == "%s._exact_predictive_covar_inv_quad_form_root" % sn and len(e.args) == 2 and classify_pc(e.args[1]) == "TX":
            return "R"
        return None

    want_exact = lin({("TT",): 1, ("TX", "KN^-1", "TX^T"): -1})
    want_root = lin({("TT",): 1, ("R", "R^T"): -1})
    seen = {"exact": 0, "root": 0}
    probs = []
    for path, seq in walk_paths(pc):
        for st, env in seq:
            if not (isinstance(st, ast.Return) and st.value is not None):
                continue
            r = inline(st.value, env)
            if isinstance(r, ast.Call) and (chain(r.func) or "").split(".")[-1] == "ZeroLinearOperator":
                continue  # variances skipped by request
            v = LinEval(classify_pc, {"TT", "KN"}).ev(r)
            if v is not None and v == want_exact:
                seen["exact"] += 1
            elif v is not None and v == want_root:
                seen["root"] += 1
            else:
                probs.append("a returning path yields `%s`; expected `%s` (exact) or `%s` (cached root)" % (v.show() if v is not None else " ".join(src(st.value).split())[:60] + " (not of matrix-affine shape)", want_exact.show(), want_root.show()))
    ok = not probs and seen["exact"] >= 1 and seen["root"] >= 1
    rep.add("C01-7", "%s:DefaultPredictionStrategy.exact_predictive_covar" % D.module.name, pc.where, ok,
            "K** - K*x (K+S)^-1 Kx* on %d exact path(s), K** - R R^T on %d cached-root path(s)" % (seen["exact"], seen["root"]) if ok else "; ".join(sorted(set(probs))[:3]) or "an expected form is missing %s" % seen, seen)


# ---- C01-8 ---------------------------------------------------------------------------------------------------------
def factor_orientation(idx: ProgramIndex, rep: Report):
    """A prediction strategy that writes a covariance correction as RootLinearOperator(X @ R) means X (R R^T) X^T.  With R a Cholesky factor of
    A that is X A X^T only for the LOWER factor (L L^T = A); the upper factor U = L^T gives X (L^T L) X^T - same shape, symmetric, positive
    semi-definite, and a different matrix.  Orientation is tracked through the strategy's own cached members and transposes."""
    rep.rule("C01-8", "a Cholesky factor multiplied from the right into a root (RootLinearOperator(X @ R), i.e. X R R^T X^T) is the lower factor of the matrix it stands for (orientation tracked through cached members and transposes)")
    base = idx.find_class("DefaultPredictionStrategy")
    n = 0

    def orientation(cls, fi, e, depth=0) -> Optional[str]:
        if depth > 6:
            return None
        if isinstance(e, ast.Call):
            fn = (chain(e.func) or "").split(".")[-1]
            if fn in ("psd_safe_cholesky", "cholesky") and (isinstance(e.func, ast.Name) or chain(e.func) in ("torch.linalg.cholesky", "torch.cholesky") or isinstance(e.func, ast.Attribute)):
                up = [k.value for k in e.keywords if k.arg == "upper"]
                if fn == "psd_safe_cholesky" and len(e.args) > 1:
                    up = up or [e.args[1]]
                if up and isinstance(up[0], ast.Constant) and up[0].value is True:
                    return "upper"
                if up and not isinstance(up[0], ast.Constant):
                    return None
                return "lower"
            if isinstance(e.func, ast.Attribute) and e.func.attr in ("transpose", "t") or (isinstance(e.func, ast.Attribute) and e.func.attr == "mT"):
                o = orientation(cls, fi, e.func.value, depth + 1)
                return {"lower": "upper", "upper": "lower"}.get(o)
            if isinstance(e.func, ast.Attribute) and e.func.attr in ("detach", "to_dense", "contiguous", "clone", "to", "type_as"):
                return orientation(cls, fi, e.func.value, depth + 1)
            return None
        if isinstance(e, ast.Attribute) and e.attr == "mT":
            return {"lower": "upper", "upper": "lower"}.get(orientation(cls, fi, e.value, depth + 1))
        if isinstance(e, ast.Attribute) and chain(e.value) == fi.params[0]:
            m = cls.lookup(e.attr)
            if m is None:
                return None
            rets = [r.value for r in ast.walk(m.node) if isinstance(r, ast.Return) and r.value is not None]
            os_ = {orientation(cls, m, r, depth + 1) for r in rets}
            return os_.pop() if len(os_) == 1 else None
        if isinstance(e, ast.Name):
            vals = [a.value for a in ast.walk(fi.node) if isinstance(a, ast.Assign) and any(isinstance(t, ast.Name) and t.id == e.id for t in a.targets)]
            # a name re-bound from itself (res = res.detach()) keeps its orientation
            os_ = {orientation(cls, fi, v, depth + 1) for v in vals if not (isinstance(v, ast.Call) and isinstance(v.func, ast.Attribute) and isinstance(v.func.value, ast.Name) and v.func.value.id == e.id)}
            return os_.pop() if len(os_) == 1 else None
        return None
    for cls in sorted([base] + list(idx.subclasses(base)), key=lambda c: c.qualname):
        for name, fi in sorted(cls.methods.items()):
            k = 0
            for c in sorted(calls_in(fi.node), key=lambda q: (q.lineno, q.col_offset)):
                if (chain(c.func) or "").split(".")[-1] != "RootLinearOperator" or not c.args:
                    continue
                a = c.args[0]
                right = None
                if isinstance(a, ast.BinOp) and isinstance(a.op, ast.MatMult):
                    right = a.right
                elif isinstance(a, ast.Call) and isinstance(a.func, ast.Attribute) and a.func.attr == "matmul" and a.args:
                    right = a.args[0]
                if right is None:
                    continue
                n += 1
                k += 1
                o = orientation(cls, fi, right)
                ok = o != "upper"
                rep.add("C01-8", "%s:%s.%s[root with a right factor #%d]" % (cls.module.name, cls.qualname, name, k), "%s:%d" % (fi.module.relpath, c.lineno), ok,
                        ("the right factor is a lower Cholesky factor" if o == "lower" else "the right factor is not a Cholesky factor the rule tracks") if ok else
                        "`%s`: the right factor is an UPPER Cholesky factor U of the inner matrix A (U^T U = A); the root then represents X U U^T X^T instead of X A X^T - a symmetric PSD matrix of the right shape and the wrong values: the posterior covariance is off by 0.09-0.35 while the mean stays exact" % norm(c)[:70], {})
    rep.floor("C01-8", "roots formed with a right factor in the prediction strategies", n, 1)
