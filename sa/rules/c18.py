"""C18 - persistence round trips: what state_dict / pickle / deepcopy *carry*.

C18-1  every prior's distribution parameters are registered buffers (torch-base table + def-use of constructor parameters)
C18-2  constraint bounds are buffers, moved by _apply, loaded non-strictly for exactly these keys
C18-3  runtime-mutated, prediction-relevant attributes of gpytorch Modules are parameters/buffers, caches, training data,
       restored temporaries or configuration; state derived from parameters/buffers at construction is recomputed on load
C18-4  __getstate__/__deepcopy__ overrides drop only caches
C18-5  loading clears caches; legacy pre-hooks only add missing keys
C18-6  initialisation flags written with fill_() are registered buffers
Does not decide bit-equality of predictions.  (DESIGN.md section 4, C18.)
"""
from __future__ import annotations

import ast
from typing import Dict, List, Optional, Set, Tuple

from ..cfg import all_normal_exits_pass
from ..index import (AnalysisError, ClassInfo, External, FuncInfo, ProgramIndex, body_without_docstring, call_name, calls_in, chain,
                     const_str, get_arg, is_super_call, norm, src, walk_no_nested)
from ..report import Report
from . import c03

TORCH_DIST_PARAMS = {
    # torch distribution base -> tensors that define it (frozen table, torch.distributions sources)
    "Normal": ("loc", "scale"),
    "LogNormal": ("loc", "scale"),
    "HalfNormal": ("scale",),
    "HalfCauchy": ("scale",),
    "Gamma": ("concentration", "rate"),
    "Uniform": ("low", "high"),
    "MultivariateNormal": ("loc", "_unbroadcasted_scale_tril"),
    "LKJCholesky": ("concentration",),
}
NON_PARAM_CTOR_ARGS = {"validate_args", "transform", "self"}

# stores outside __init__ that are legitimate without being buffers -----------------------------------------------------
TRAINING_DATA = {"train_inputs", "train_targets", "_train_targets"}
EXEMPT_METHODS = {
    "_apply": "device/dtype move: applies fn to tensors, values preserved",
    "local_load_samples": "Pyro integration: loads posterior samples into a *copy* used for prediction",
    "__setstate__": "unpickling",
}
CONFIG_SETTERS = {
    # attribute -> reason (set through a public property setter / constructor argument: architecture or configuration,
    # identical in a 'freshly constructed model of the same architecture')
    "_batch_shape": "batch shape bookkeeping, follows the parameters' shapes",
    "_num_data": "data-set size declared by the user (constructor-level configuration)",
    "_name_prefix": "Pyro name prefix",
    "_jitter_val": "jitter configuration (constructor argument of the strategy)",
}
TRAINING_ITERATION_STATE = {
    # NNVariationalStrategy minibatch iterator: which random subset is visited next; not part of the model
    "_training_indices_iter", "_total_training_batches", "_training_indices_iterator", "current_training_indices",
}
MULTI_DEVICE = {"__cached_x1", "__cached_x2", "_x2_subs", "_x1_scattered", "_MultiDeviceKernel__cached_x1", "_MultiDeviceKernel__cached_x2"}


def run(idx: ProgramIndex, rep: Report, tier: str):
    rep.explanation = (
        "Inventory analysis of what the persistence mechanisms carry. Prior classes: the tensors defining the torch base "
        "distribution (frozen 8-row table) must be bufferized, and for priors without a torch base every constructor parameter must "
        "flow (def-use over locals) into register_buffer or a sub-module. Constraints: bounds are buffers, moved by _apply, loaded "
        "with strict=False only there. Modules: every attribute stored outside __init__ is classified (registered tensor, cache from "
        "the C03 inventory, training data, save/restore temporary, configuration setter, training-iterator) - anything else, and any "
        "state computed from a parameter/buffer at construction that the class does not recompute in _load_from_state_dict, is a "
        "violation. __getstate__/__deepcopy__ overrides may drop only caches. Flags written with fill_() must be buffers. "
        "Bit-equality of predictions after a round trip is not decided.")
    rep.rule("C18-1", "prior parameters are registered buffers (they appear in state_dict)")
    rep.rule("C18-2", "constraint bounds are buffers, moved by _apply and tolerated as missing keys on load")
    rep.rule("C18-3", "runtime-mutated prediction-relevant attributes are state-carried; derived state is recomputed on load")
    rep.rule("C18-4", "__getstate__/__deepcopy__ overrides drop only caches and pass every constructor parameter")
    rep.rule("C18-5", "loading a state dict clears caches; legacy pre-hooks only add missing keys")
    rep.rule("C18-6", "initialisation flags written with fill_() are registered buffers")
    priors(idx, rep)
    constraint_bounds(idx, rep)
    runtime_state(idx, rep)
    pickling(idx, rep)
    load_hooks(idx, rep)
    init_flags(idx, rep)
    shadow_buffers(idx, rep)
    lazy_registration(idx, rep)
    copyable_caches(idx, rep)
    picklable_closures(idx, rep)
    mirrored_buffers(idx, rep)
    closures_use_their_argument(idx, rep)
    deepcopy_overrides(idx, rep)


# ---- C18-7 ---------------------------------------------------------------------------------------------------------
def shadow_buffers(idx: ProgramIndex, rep: Report):
    """torch loads a state dict by in-place copy_ into the registered buffer.  A buffer that shadows a tensor living elsewhere (the
    loc/scale of a TransformedDistribution's base_dist) therefore has to BE that tensor: registering a clone leaves the live tensor
    at its constructor value when the state is loaded through an enclosing module.  A buffer that replaces the attribute (plain
    distributions) must be registered under the attribute's own name after the attribute was deleted."""
    from ..symbolic import inline, walk_paths
    rep.rule("C18-7", "shadow buffers of prior parameters alias the live tensor (no copy), replacing buffers take the attribute's own name")
    fi = idx.function(idx.package + ".priors.utils", "_bufferize_attributes")
    mod_p = fi.params[0]
    n = 0
    COPYING = ("clone", "detach", "contiguous", "to", "float", "double", "new_tensor", "copy_", "expand", "repeat")
    for path, seq in walk_paths(fi):
        deleted: List[str] = []
        for st, env in seq:
            if not isinstance(st, ast.stmt):
                continue
            for c in (x for x in ast.walk(st) if isinstance(x, ast.Call)):
                if chain(c.func) == "delattr" and len(c.args) == 2 and src(c.args[0]) == mod_p:
                    deleted.append(ast.dump(inline(c.args[1], env)))
                if not (isinstance(c.func, ast.Attribute) and c.func.attr == "register_buffer" and chain(c.func.value) == mod_p and len(c.args) >= 2):
                    continue
                name, val = inline(c.args[0], env), inline(c.args[1], env)
                where = "%s:%d" % (fi.module.relpath, c.lineno)
                if isinstance(name, ast.JoinedStr):
                    # f"<prefix>{attr}": a shadow of module.<attr>
                    fields = [v.value for v in name.values if isinstance(v, ast.FormattedValue)]
                    inst = "%s:_bufferize_attributes[shadow %s]" % (fi.module.name, "".join(v.value if isinstance(v, ast.Constant) else "{attr}" for v in name.values))
                    if any(o.rule == "C18-7" and o.instance == inst for o in rep.obligations):
                        continue
                    n += 1
                    alias = isinstance(val, ast.Call) and chain(val.func) == "getattr" and len(val.args) == 2 and src(val.args[0]) == mod_p and len(fields) == 1 and ast.dump(val.args[1]) == ast.dump(fields[0])
                    copied = [x.func.attr for x in ast.walk(val) if isinstance(x, ast.Call) and isinstance(x.func, ast.Attribute) and x.func.attr in COPYING]
                    rep.add("C18-7", inst, where, alias,
                            "the shadow buffer is the live tensor itself: an in-place load reaches the base distribution" if alias else
                            "the shadow buffer is registered with `%s`%s, not with the live tensor getattr(%s, attr): load_state_dict through an enclosing module fills the buffer but leaves the distribution's own parameter at its constructor value" % (
                                " ".join(src(val).split())[:60], " (a copy: .%s())" % copied[0] if copied else "", mod_p), {})
                else:
                    inst = "%s:_bufferize_attributes[replacing buffer]" % fi.module.name
                    if any(o.rule == "C18-7" and o.instance == inst for o in rep.obligations):
                        continue
                    n += 1
                    ok = ast.dump(name) in deleted
                    rep.add("C18-7", inst, where, ok, "the attribute is deleted and re-registered as a buffer under its own name" if ok else
                            "a buffer is registered under `%s` without the attribute of that name having been deleted first" % src(name)[:40], {})
    rep.floor("C18-7", "buffer registrations of prior parameters", n, 2)


# ---- C18-1 ---------------------------------------------------------------------------------------------------------
def _bufferized(cls: ClassInfo) -> Set[str]:
    out: Set[str] = set()
    for k in cls.repo_mro():
        init = k.methods.get("__init__")
        if init is None:
            continue
        for c in calls_in(init.node):
            fn = call_name(c) or ""
            if fn.split(".")[-1] == "_bufferize_attributes" and len(c.args) == 2 and isinstance(c.args[1], (ast.Tuple, ast.List)):
                out |= {const_str(e) for e in c.args[1].elts if const_str(e)}
            if isinstance(c.func, ast.Attribute) and c.func.attr == "register_buffer" and c.args:
                n = const_str(c.args[0])
                if n:
                    out.add(n)
        break  # only the effective __init__
    return out


def priors(idx: ProgramIndex, rep: Report):
    P = idx.cls("gpytorch.priors.prior", "Prior")
    n = 0
    for cls in idx.subclasses(P, strict=True):
        init = cls.lookup("__init__")
        if init is None or init.cls is None:
            continue
        own_init = init.cls == cls
        torch_bases = [b.name for b in cls.external_bases() if b.name in TORCH_DIST_PARAMS]
        # the requirement binds where the torch base constructor is actually run
        torch_bases = [b for b in torch_bases if any((call_name(c) or "") == b + ".__init__" for c in calls_in(init.node))
                       or (any(is_super_call(c, "__init__") for c in calls_in(init.node)) and init.cls != cls)]
        inst = "%s:%s" % (cls.module.name, cls.qualname)
        if torch_bases:
            if not own_init and init.cls.is_subclass_of(P):
                # inherits the constructor: covered by the defining class
                continue
            n += 1
            need = set()
            for b in torch_bases:
                need |= set(TORCH_DIST_PARAMS[b])
            have = _bufferized(cls)
            missing = sorted(need - have)
            rep.add("C18-1", inst, init.where, not missing,
                    "parameters %s of torch.distributions.%s are registered as buffers" % (sorted(need), "/".join(torch_bases)) if not missing else
                    "distribution parameter(s) %s of torch.distributions.%s are plain attributes: absent from state_dict, a model loaded into a fresh instance keeps the fresh instance's values" % (missing, "/".join(torch_bases)),
                    {"required": sorted(need), "bufferized": sorted(have)})
        else:
            if not own_init:
                continue
            n += 1
            probs = _ctor_params_reach_state(idx, cls, init)
            rep.add("C18-1", inst, init.where, not probs, "every constructor parameter reaches a registered buffer or a sub-module" if not probs else "; ".join(probs), {})
    rep.floor("C18-1", "prior classes analysed", n, 12)


def _ctor_params_reach_state(idx: ProgramIndex, cls: ClassInfo, init: FuncInfo) -> List[str]:
    params = [p for p in init.params if p not in NON_PARAM_CTOR_ARGS]
    a = init.node.args
    # locals derived from each parameter
    probs = []
    assigns = [n for n in ast.walk(init.node) if isinstance(n, ast.Assign)]
    sinks: List[ast.AST] = []
    for c in calls_in(init.node):
        if isinstance(c.func, ast.Attribute) and c.func.attr == "register_buffer" and len(c.args) >= 2:
            sinks.append(c.args[1])
        r = idx.resolve_expr(init.module, c.func)
        if isinstance(r, ClassInfo) and (r.is_subclass_of("Prior") or r.is_subclass_of("Module")):
            for n in assigns:
                if n.value is c and any(chain(t) and chain(t).startswith("self.") for t in n.targets):
                    sinks.extend(c.args)
                    sinks.extend(k.value for k in c.keywords)
    for n in assigns:  # self.x = <local>: a module object passed in as parameter, or a local bound to a freshly built sub-module
        if any(chain(t) and chain(t).startswith("self.") for t in n.targets) and isinstance(n.value, ast.Name):
            v = n.value.id
            is_module_obj = any(isinstance(c, ast.Call) and chain(c.func) == "isinstance" and len(c.args) == 2 and src(c.args[0]) == v and src(c.args[1]).split(".")[-1] in ("Prior", "Module", "Kernel", "Mean", "Interval")
                                for c in calls_in(init.node))
            if v in init.params and (v.endswith("prior") or is_module_obj):
                sinks.append(n.value)
            for d in assigns:
                if any(isinstance(t, ast.Name) and t.id == v for t in d.targets) and isinstance(d.value, ast.Call):
                    r = idx.resolve_expr(init.module, d.value.func)
                    if isinstance(r, ClassInfo) and (r.is_subclass_of("Prior") or r.is_subclass_of("Module")):
                        sinks.extend(d.value.args)
                        sinks.extend(k.value for k in d.value.keywords)
    for p in params:
        derived = {p}
        changed = True
        while changed:
            changed = False
            for n in assigns:
                names = {x.id for x in ast.walk(n.value) if isinstance(x, ast.Name)}
                if names & derived:
                    for t in n.targets:
                        for e in ast.walk(t):
                            if isinstance(e, ast.Name) and e.id not in derived:
                                derived.add(e.id)
                                changed = True
        reaches = any({x.id for x in ast.walk(s) if isinstance(x, ast.Name)} & derived for s in sinks)
        if not reaches:
            # integer structure parameters (dimension) are architecture, recognised by use as a size only
            if p in ("n", "dim", "num_tasks"):
                continue
            probs.append("constructor parameter `%s` does not reach a registered buffer or sub-module" % p)
    return probs


# ---- C18-2 ---------------------------------------------------------------------------------------------------------
def constraint_bounds(idx: ProgramIndex, rep: Report):
    I = idx.cls("gpytorch.constraints.constraints", "Interval")
    init = idx.method(I, "__init__", own=True)
    regs = {const_str(c.args[0]) for c in calls_in(init.node) if isinstance(c.func, ast.Attribute) and c.func.attr == "register_buffer" and c.args}
    ok = {"lower_bound", "upper_bound"} <= regs
    rep.add("C18-2", "gpytorch.constraints.constraints:Interval[bounds are buffers]", init.where, ok, "lower_bound and upper_bound are registered buffers" if ok else "constraint bounds are not registered buffers: %s" % sorted(regs), {})
    ap = idx.method(I, "_apply", own=True)
    t = src(ap.node)
    ok = "self.lower_bound = fn(self.lower_bound)" in t and "self.upper_bound = fn(self.upper_bound)" in t and "super()._apply(fn)" in t
    rep.add("C18-2", "gpytorch.constraints.constraints:Interval._apply", ap.where, ok, "both bounds are moved with the module" if ok else "Interval._apply no longer moves both bounds and delegates", {})
    ld = idx.method(I, "_load_from_state_dict", own=True)
    calls = [c for c in calls_in(ld.node) if is_super_call(c, "_load_from_state_dict")]
    ok = len(calls) == 1 and all_normal_exits_pass(body_without_docstring(ld.node), lambda n: any(c in list(ast.walk(n)) for c in calls))
    strict_kw = [k for c in calls for k in c.keywords if k.arg == "strict"]
    ok = ok and len(strict_kw) == 1 and isinstance(strict_kw[0].value, ast.Constant) and strict_kw[0].value.value is False
    # state_dict itself must be forwarded unchanged
    fwd = [k for c in calls for k in c.keywords if k.arg == "state_dict"]
    ok = ok and (not fwd or src(fwd[0].value) == "state_dict")
    rep.add("C18-2", "gpytorch.constraints.constraints:Interval._load_from_state_dict", ld.where, ok, "delegates with strict=False (older checkpoints lack the bound buffers) and the unchanged state_dict" if ok else "Interval._load_from_state_dict does not delegate once with strict=False and the unchanged state_dict", {})


# ---- C18-3 ---------------------------------------------------------------------------------------------------------
def registered_names(idx: ProgramIndex, cls: ClassInfo) -> Set[str]:
    out: Set[str] = set()
    for k in cls.repo_mro():
        for m in k.methods.values():
            for c in calls_in(m.node):
                if isinstance(c.func, ast.Attribute) and c.func.attr in ("register_buffer", "register_parameter"):
                    nm = get_arg(c, 0, "name")
                    if nm is not None and const_str(nm):
                        out.add(const_str(nm))
                    elif nm is not None and isinstance(nm, ast.BinOp):
                        out.add("<dynamic:%s>" % src(nm))
                if isinstance(c.func, ast.Attribute) and c.func.attr == "register_buffer_list" and c.args and const_str(c.args[0]):
                    out.add(const_str(c.args[0]) + "_*")
            for n in ast.walk(m.node):
                if isinstance(n, ast.Assign) and isinstance(n.value, ast.Call) and (chain(n.value.func) or "").endswith("Parameter"):
                    for t in n.targets:
                        if chain(t) and chain(t).startswith("self."):
                            out.add(chain(t).split(".", 1)[1])
    return out


def _cache_attrs(idx: ProgramIndex) -> Set[str]:
    out = {"_memoize_cache", "prediction_strategy"}
    for c, a, writers in c03.attribute_caches(idx):
        out.add(a)
    return out


def _restored_in_function(fi: FuncInfo, attr: str) -> bool:
    """self.attr is saved to a local, overwritten and restored from that local in the same function."""
    saves = [n for n in ast.walk(fi.node) if isinstance(n, ast.Assign) and src(n.value) == "self." + attr and len(n.targets) == 1 and isinstance(n.targets[0], ast.Name)]
    for sv in saves:
        loc = sv.targets[0].id
        if any(isinstance(n, ast.Assign) and any(src(t) == "self." + attr for t in n.targets) and src(n.value) == loc for n in ast.walk(fi.node)):
            return True
    return False


def _setter_or_property(cls: ClassInfo, attr: str) -> bool:
    return cls.lookup_setter(attr) is not None


def runtime_state(idx: ProgramIndex, rep: Report):
    gm = idx.cls("gpytorch.module", "Module")
    caches = _cache_attrs(idx)
    n = 0
    for cls in sorted(idx.subclasses(gm), key=lambda c: (c.module.name, c.qualname)):
        regs = registered_names(idx, cls)
        init_methods = _init_reachable(cls)
        for name, m in list(cls.methods.items()) + [("setter:" + k, v) for k, v in cls.setters.items()]:
            if name == "__init__":
                continue
            for node in ast.walk(m.node):
                tg = node.targets if isinstance(node, ast.Assign) else ([node.target] if isinstance(node, ast.AugAssign) else [])
                for t in tg:
                    if not (isinstance(t, ast.Attribute) and chain(t.value) == "self"):
                        continue
                    attr = t.attr
                    n += 1
                    inst = "%s:%s.%s:%s" % (cls.module.name, cls.qualname, m.name, attr)
                    where = "%s:%d" % (m.module.relpath, node.lineno)
                    why = None
                    if attr in regs or any(r.endswith("_*") and attr.startswith(r[:-1]) and attr[len(r) - 1:].isdigit() for r in regs):
                        why = "registered parameter/buffer"
                    elif _setter_or_property(cls, attr):
                        why = "assignment through a property setter (checked at the setter)"
                    elif attr in caches or attr.startswith("_cached"):
                        why = "cache (inventory of C03-1)"
                    elif attr in TRAINING_DATA:
                        why = "training data (constructor argument of a freshly constructed model)"
                    elif m.name in EXEMPT_METHODS:
                        why = EXEMPT_METHODS[m.name]
                    elif attr in CONFIG_SETTERS and (name.startswith("setter:") or True):
                        why = "configuration: " + CONFIG_SETTERS[attr]
                    elif attr in TRAINING_ITERATION_STATE and cls.name == "NNVariationalStrategy":
                        why = "minibatch iterator state of VNNGP training (which subset is visited next), not model state"
                    elif attr in MULTI_DEVICE or cls.name == "MultiDeviceKernel":
                        why = "multi-GPU scatter cache validated against the current inputs"
                    elif _restored_in_function(m, attr):
                        why = "temporary: saved, overwritten and restored in the same function"
                    elif m.name == "__getstate__":
                        why = "handled by C18-4"
                    elif _consumed_locally(m, attr):
                        why = "written and consumed inside the same call (not state)"
                    elif cls.name == "GridInterpolationKernel" and attr == "grid_bounds":
                        stores = _stores_to(idx, cls, "has_initialized_grid")
                        if stores == 0:
                            why = "grid_bounds is re-derived from the inputs on every call while has_initialized_grid is never set (store count 0, re-checked)"
                    elif m.name in init_methods and _derived_from_registered(m, regs):
                        # state derived from parameters/buffers at construction: must be recomputed on load
                        ld = cls.lookup("_load_from_state_dict")
                        recomputed = ld is not None and ld.cls is not None and ld.cls.is_subclass_of(cls.name) is not None and any(
                            isinstance(c.func, ast.Attribute) and c.func.attr == m.name and chain(c.func.value) == "self" for c in calls_in(ld.node)) \
                            and any(is_super_call(c, "_load_from_state_dict") for c in calls_in(ld.node))
                        rep.add("C18-3", inst, where, recomputed,
                                "derived from registered tensors in %s, which _load_from_state_dict re-runs after loading" % m.name if recomputed else
                                "`self.%s` is computed from registered tensor(s) by %s at construction and kept as a plain attribute; it is not in state_dict and not recomputed by _load_from_state_dict: after loading other values the model predicts with stale derived state" % (attr, m.name),
                                {"derived_in": m.name})
                        continue
                    rep.add("C18-3", inst, where, why is not None,
                            why or "attribute `%s` is mutated at run time in %s but is neither a registered parameter/buffer nor a cache, training data, configuration or a restored temporary: it is not carried by state_dict" % (attr, m.name), {"classification": why})
    # derived state computed directly in __init__: a plain attribute whose value is computed from the very tensors that __init__ registers
    # as buffers / parameters (`self.w = upper - lower` next to register_buffer("upper", upper)).  load_state_dict replaces the
    # registered tensors in place and knows nothing about the attribute: it has to be recomputed by _load_from_state_dict (or be a
    # property).  Aliases of constructor arguments that are not registered tensors (callables, flags, sizes) are configuration.
    m_init = 0
    for cls in sorted(idx.package_classes(), key=lambda c: (c.module.name, c.qualname)):
        for attr, uses, a in _derived_plain_attrs(idx, cls):
            m_init += 1
            init = cls.methods["__init__"]
            ld = cls.lookup("_load_from_state_dict")
            recomputed = ld is not None and ld.module.name.startswith(idx.package) and any(isinstance(t, ast.Attribute) and t.attr == attr and chain(t.value) == "self" for x in ast.walk(ld.node) if isinstance(x, ast.Assign) for t in x.targets)
            rep.add("C18-3", "%s:%s.__init__:%s" % (cls.module.name, cls.qualname, attr), "%s:%d" % (init.module.relpath, a.lineno), recomputed,
                    "derived from registered tensors and recomputed by _load_from_state_dict" if recomputed else
                    "`self.%s` is computed in __init__ from %s, which are registered as buffers/parameters, and kept as a plain attribute: load_state_dict replaces the registered tensors in place, the attribute keeps the constructor's value, so a model loaded into an instance built with other values computes with stale derived state" % (attr, ", ".join(sorted(uses))), {"derived_from": sorted(uses)})
    # positive control (the expected count on the library is zero)
    ctl = idx.load_source("gpytorch._verif_control_c18", "import torch\nclass ControlWidth(torch.nn.Module):\n    def __init__(self, lo, hi):\n        super().__init__()\n        self.register_buffer('lo', lo)\n        self.register_buffer('hi', hi)\n        self.width = hi - lo\n        self.kind = 'x'\n")
    try:
        hits = _derived_plain_attrs(idx, ctl.classes["ControlWidth"])
        if [h[0] for h in hits] != ["width"]:
            raise AnalysisError("C18-3: positive control for derived plain attributes not matched (%s)" % [h[0] for h in hits])
    finally:
        for k in [k for k in idx.classes if k[0] == "gpytorch._verif_control_c18"]:
            ci = idx.classes.pop(k)
            idx.by_name[ci.name].remove(ci)
        del idx.modules["gpytorch._verif_control_c18"]
    rep.floor("C18-3", "attribute stores outside __init__ classified", n, 48)
    rep.analysed["C18-3 derived plain attributes in __init__"] = m_init


def _init_reachable(cls: ClassInfo) -> Set[str]:
    """methods called (transitively) on self from __init__"""
    out: Set[str] = set()
    init = cls.lookup("__init__")
    work = [init] if init else []
    while work:
        f = work.pop()
        for c in calls_in(f.node):
            if isinstance(c.func, ast.Attribute) and chain(c.func.value) == "self":
                t = cls.lookup(c.func.attr)
                if t is not None and t.name not in out and t.cls is not None:
                    out.add(t.name)
                    work.append(t)
    return out


def _derived_from_registered(m: FuncInfo, regs: Set[str]) -> bool:
    return any(isinstance(n, ast.Attribute) and chain(n.value) == "self" and n.attr in regs and isinstance(n.ctx, ast.Load) for n in ast.walk(m.node))


def _consumed_locally(m: FuncInfo, attr: str) -> bool:
    """written in m, and the only reads of self.attr anywhere in the class are in m after the write"""
    cls = m.cls
    if cls is None:
        return False
    for name, f in list(cls.all_methods().items()):
        if f is m:
            continue
        for n in ast.walk(f.node):
            if isinstance(n, ast.Attribute) and n.attr == attr and isinstance(n.ctx, ast.Load) and chain(n.value) == "self":
                return False
    reads = [n for n in ast.walk(m.node) if isinstance(n, ast.Attribute) and n.attr == attr and isinstance(n.ctx, ast.Load) and chain(n.value) == "self"]
    return bool(reads)


def _stores_to(idx: ProgramIndex, cls: ClassInfo, attr: str) -> int:
    n = 0
    for f in idx.all_functions():
        for node in ast.walk(f.node):
            if isinstance(node, ast.Call) and isinstance(node.func, ast.Attribute) and node.func.attr in ("fill_", "copy_", "zero_") and src(node.func.value).endswith("." + attr):
                n += 1
            if isinstance(node, ast.Assign) and any(isinstance(t, ast.Attribute) and t.attr == attr for t in node.targets) and f.name != "__init__":
                n += 1
    return n


# ---- C18-4 ---------------------------------------------------------------------------------------------------------
GETSTATE_DROPPABLE = {"distance_module": "torch.jit ScriptModule used only as a lazily rebuilt distance helper"}


def _enclosing_tests(fn: ast.AST, target: ast.AST) -> List[ast.AST]:
    """tests of the If statements whose *body* encloses target"""
    out: List[ast.AST] = []

    def rec(stmts, acc) -> bool:
        for st in stmts:
            if any(x is target for x in ast.walk(st)):
                if isinstance(st, ast.If):
                    if any(any(x is target for x in ast.walk(b)) for b in st.body):
                        return rec(st.body, acc + [st.test])
                    if any(any(x is target for x in ast.walk(b)) for b in st.orelse):
                        return rec(st.orelse, acc + [ast.UnaryOp(op=ast.Not(), operand=st.test)])
                    out.extend(acc)
                    return True
                for fld in ("body", "orelse", "finalbody"):
                    sub = getattr(st, fld, None)
                    if isinstance(sub, list) and sub and isinstance(sub[0], ast.stmt) and any(any(x is target for x in ast.walk(b)) for b in sub):
                        return rec(sub, acc)
                out.extend(acc)
                return True
        return False

    rec(fn.body, [])
    return out


def pickling(idx: ProgramIndex, rep: Report):
    n = 0
    for cls in idx.package_classes():
        gs = cls.methods.get("__getstate__")
        if gs is not None:
            n += 1
            dropped = set()
            for node in ast.walk(gs.node):
                if isinstance(node, ast.Assign):
                    for t in node.targets:
                        if isinstance(t, ast.Attribute) and chain(t.value) == "self":
                            dropped.add(t.attr)
                if isinstance(node, ast.Call) and isinstance(node.func, ast.Attribute) and node.func.attr == "pop" and node.args and const_str(node.args[0]):
                    dropped.add(const_str(node.args[0]))
                if isinstance(node, ast.Delete):
                    for t in node.targets:
                        dropped.add(src(t))
            rets = [r.value for r in ast.walk(gs.node) if isinstance(r, ast.Return)]
            ok_ret = all(r is not None and ("__dict__" in src(r) or "state" in src(r)) for r in rets) and bool(rets)
            bad = sorted(d for d in dropped if d not in GETSTATE_DROPPABLE and not d.startswith("_cached") and d != "_memoize_cache")
            rep.add("C18-4", "%s:%s.__getstate__" % (cls.module.name, cls.qualname), gs.where, ok_ret and not bad,
                    "pickled state is the full __dict__ minus %s" % sorted(dropped) if ok_ret and not bad else
                    "__getstate__ drops %s from the pickled state (only caches may be dropped)" % bad if bad else "__getstate__ does not return the instance dictionary", {"dropped": sorted(dropped)})
        ss = cls.methods.get("__setstate__")
        if ss is not None:
            n += 1
            sn, dp = ss.params[0], (ss.params[1] if len(ss.params) > 1 else None)
            # (a) the pickled dictionary is restored as a whole
            restores = any(isinstance(a, ast.Assign) and any(chain(t) == "%s.__dict__" % sn for t in a.targets) and isinstance(a.value, ast.Name) and a.value.id == dp for a in ast.walk(ss.node)) \
                or any(isinstance(c, ast.Call) and chain(c.func) in ("%s.__dict__.update" % sn, "super().__setstate__") for c in ast.walk(ss.node))
            probs_ss = [] if restores else ["the pickled state is not restored as a whole (`self.__dict__ = state` / update / super().__setstate__)"]
            # (b) nothing that was restored is overwritten afterwards: a (re-)registration or attribute store in __setstate__ must be
            #     conditional on the name being absent, or on the value it writes being present (legacy-format hooks)
            for node in ast.walk(ss.node):
                written = None
                val = None
                if isinstance(node, ast.Call) and isinstance(node.func, ast.Attribute) and node.func.attr in ("register_buffer", "register_parameter", "__setattr__", "add_module") and chain(node.func.value) == sn and node.args:
                    written, val = const_str(node.args[0]) or src(node.args[0]), (node.args[1] if len(node.args) > 1 else None)
                elif isinstance(node, ast.Call) and chain(node.func) == "setattr" and len(node.args) == 3 and src(node.args[0]) == sn:
                    written, val = const_str(node.args[1]) or src(node.args[1]), node.args[2]
                elif isinstance(node, ast.Assign) and any(isinstance(t, ast.Attribute) and chain(t.value) == sn and t.attr != "__dict__" for t in node.targets):
                    written, val = [t.attr for t in node.targets if isinstance(t, ast.Attribute)][0], node.value
                if written is None:
                    continue
                guards = _enclosing_tests(ss.node, node)
                vname = val.id if isinstance(val, ast.Name) else None
                safe = False
                for g in guards:
                    t = " ".join(src(g).split())
                    if ("'%s' not in" % written in t.replace('"', "'")) or ("not hasattr(%s, '%s')" % (sn, written) in t.replace('"', "'")):
                        safe = True
                    if vname and ("%s is not None" % vname) in t and not t.startswith("not "):
                        safe = True
                if not safe:
                    probs_ss.append("`%s` is written unconditionally after the state was restored: the restored value is overwritten on every unpickling / deep copy" % written)
            rep.add("C18-4", "%s:%s.__setstate__" % (cls.module.name, cls.qualname), ss.where, not probs_ss,
                    "restores the pickled dictionary as a whole and overwrites nothing of it" if not probs_ss else "; ".join(sorted(set(probs_ss))), {})
        dc = cls.methods.get("__deepcopy__")
        if dc is not None:
            n += 1
            inst = "%s:%s.__deepcopy__" % (cls.module.name, cls.qualname)
            body = body_without_docstring(dc.node)
            if all(isinstance(s, ast.Pass) for s in body) or all(isinstance(s, ast.Return) and (s.value is None or (isinstance(s.value, ast.Constant) and s.value.value is None)) for s in body):
                kind, why = c03.classify_owner(idx, cls)
                ok = kind == "O"
                rep.add("C18-4", inst, dc.where, ok, "deep copy yields None: legal because the holder treats None as 'recompute' (%s)" % why if ok else
                        "__deepcopy__ returns None for a class that is not a droppable prediction cache", {})
                continue
            # the whole-state form: a new instance whose dictionary is filled entry by entry from self.__dict__
            loops = [l for l in ast.walk(dc.node) if isinstance(l, ast.For) and "__dict__" in src(l.iter)]
            if loops:
                probs = []
                memo_name = dc.params[1] if len(dc.params) > 1 else "memo"
                if not any(isinstance(a2, ast.Assign) and any(isinstance(t2, ast.Subscript) and src(t2.value) == memo_name and "id(%s)" % dc.params[0] in src(t2.slice) for t2 in a2.targets) for a2 in ast.walk(dc.node)):
                    probs.append("the copy is not entered into the memo before its members are copied: an object that refers back to this one is duplicated")
                shared = set()
                for l in loops:
                    for a2 in ast.walk(l):
                        if isinstance(a2, ast.Assign) and any(isinstance(t2, ast.Subscript) and "__dict__" in src(t2.value) for t2 in a2.targets):
                            v2 = a2.value
                            is_dc = isinstance(v2, ast.Call) and (chain(v2.func) or "").split(".")[-1] == "deepcopy"
                            if is_dc and len(v2.args) < 2 and not v2.keywords:
                                probs.append("members are deep-copied without the memo: objects the surrounding model also references are duplicated")
                            if not is_dc:
                                guard_names = set()
                                for t3, pos in _enclosing_pairs(l, a2):
                                    if pos:
                                        guard_names |= {c3.value for c3 in ast.walk(t3) if isinstance(c3, ast.Constant) and isinstance(c3.value, str)}
                                loop_vars = {x.id for x in ast.walk(l.target) if isinstance(x, ast.Name)}
                                if isinstance(v2, ast.Name) and v2.id in loop_vars:
                                    shared |= guard_names
                                    if not guard_names:
                                        probs.append("every member is handed to the copy as it is: the copy shares its state with the original")
                                else:
                                    # a member re-initialised for the copy: only per-call state may start afresh
                                    for nm in sorted(guard_names):
                                        if nm not in ("_added_loss_terms", "_memoize_cache"):
                                            probs.append("`%s` is re-initialised for the copy (`%s`) instead of being copied, and is not per-call state" % (nm, src(v2)[:40]))
                known_caches = {a for c_, a, w in c03.attribute_caches(idx) if cls.is_subclass_of(c_)}
                for nm in sorted(shared):
                    if nm not in known_caches and not nm.startswith("_cached"):
                        probs.append("`%s` is shared between the original and the copy but is not a cache" % nm)
                rep.add("C18-4", inst, dc.where, not probs, "whole instance dictionary copied through the memo; only caches (%s) are shared" % ", ".join(sorted(shared)) if not probs else "; ".join(sorted(set(probs))), {"shared": sorted(shared)})
                continue
            init = cls.lookup("__init__")
            params = [p for p in init.params[1:]] if init else []
            ctor = [c for c in calls_in(dc.node) if src(c.func) in ("self.__class__", cls.name, "type(self)")]
            probs = []
            if len(ctor) != 1:
                probs.append("expected exactly one re-construction call")
            else:
                kws = {k.arg: k.value for k in ctor[0].keywords}
                for i, p in enumerate(params):
                    v = kws.get(p, ctor[0].args[i] if i < len(ctor[0].args) else None)
                    if v is None:
                        probs.append("constructor parameter `%s` is not passed to the copy" % p)
                    elif "self.%s" % p not in src(v):
                        probs.append("constructor parameter `%s` is not taken from self.%s" % (p, p))
                # sub-objects (modules, tensors - by the constructor's annotations) must be copied through the memo: handing self.X over
                # un-copied makes the copy share X with the original, copying without the memo breaks identities inside the copied model
                # (model.likelihood is kernel.likelihood)
                ann = {a.arg: (src(a.annotation) if a.annotation is not None else "") for a in init.node.args.args + init.node.args.kwonlyargs} if init else {}
                for i, p_ in enumerate(params):
                    v = kws.get(p_, ctor[0].args[i] if i < len(ctor[0].args) else None)
                    if v is None:
                        continue
                    a_ = ann.get(p_, "")
                    is_obj = any(k in a_ for k in ("Tensor", "Kernel", "Likelihood", "Module", "Mean", "Distribution", "Prior")) and "Tuple" not in a_
                    if not is_obj:
                        continue
                    dc_call = v if isinstance(v, ast.Call) and (chain(v.func) or "").split(".")[-1] == "deepcopy" else None
                    if dc_call is None:
                        probs.append("`%s` (%s) is handed to the copy as it is: the copy shares it with the original (setting or training it on one changes the other)" % (p_, a_))
                    elif len(dc_call.args) < 2 and not dc_call.keywords:
                        probs.append("`%s` is deep-copied without the memo: an object that the surrounding model also references (e.g. the likelihood) is duplicated instead of staying one object in the copy" % p_)
                # a module re-built through its constructor starts in training mode
                gm_ = idx.cls("gpytorch.module", "Module")
                if cls.is_subclass_of(gm_):
                    keeps_mode = any((isinstance(c2.func, ast.Attribute) and c2.func.attr == "train" and any("training" in src(a2) for a2 in c2.args)) for c2 in calls_in(dc.node)) or \
                        any(isinstance(a2, ast.Assign) and any(isinstance(t2, ast.Attribute) and t2.attr == "training" for t2 in a2.targets) for a2 in ast.walk(dc.node))
                    if not keeps_mode:
                        probs.append("the copy is re-built through the constructor and its training flag is not set from self.training: the copy of an eval-mode module is in training mode")
            # attribute caches carried or dropped consistently
            for c_, a, writers in c03.attribute_caches(idx):
                if cls.is_subclass_of(c_):
                    carried = any(isinstance(nn, ast.Assign) and any(isinstance(t, ast.Attribute) and t.attr == a for t in nn.targets) for nn in ast.walk(dc.node))
                    if not carried:
                        pass  # dropping a cache is fine
            rep.add("C18-4", inst, dc.where, not probs, "re-construction passes every constructor parameter from self; caches are optional" if not probs else "; ".join(probs), {"constructor_params": params})
    rep.floor("C18-4", "__getstate__/__deepcopy__ overrides", n, 3)


def _derived_plain_attrs(idx: ProgramIndex, cls: ClassInfo):
    """[(attribute, registered tensors it is computed from, assignment)] for plain attributes that __init__ computes from the tensors it
    registers as buffers / parameters"""
    out = []
    init = cls.methods.get("__init__")
    if init is None:
        return out
    reg_locals, regs_here = set(), set()
    for c in calls_in(init.node):
        if isinstance(c.func, ast.Attribute) and c.func.attr in ("register_buffer", "register_parameter") and chain(c.func.value) == "self":
            nm = get_arg(c, 0, "name")
            v = get_arg(c, 1, "tensor") or get_arg(c, 1, "parameter")
            if nm is not None and const_str(nm):
                regs_here.add(const_str(nm))
            if isinstance(v, ast.Name):
                reg_locals.add(v.id)
    if not regs_here:
        return out
    registered = registered_names(idx, cls) if cls.module.name.startswith(idx.package) and not cls.module.name.startswith(idx.package + "._verif") else set()
    for a in ast.walk(init.node):
        if not (isinstance(a, ast.Assign) and len(a.targets) == 1 and isinstance(a.targets[0], ast.Attribute) and chain(a.targets[0].value) == "self"):
            continue
        attr = a.targets[0].attr
        if attr in regs_here or attr in registered:
            continue
        v = a.value
        if isinstance(v, (ast.Name, ast.Constant, ast.Attribute)):
            continue  # alias / configuration
        if isinstance(v, ast.Call):
            # sub-modules carry their own state
            try:
                k_ = idx.find_class((chain(v.func) or "").split(".")[-1])
                if any(getattr(b_, "name", "") == "Module" for b_ in k_.mro()):
                    continue
            except AnalysisError:
                pass
            if (chain(v.func) or "").split(".")[-1] in ("Parameter",):
                continue
        # metadata reads (.device / .dtype) are not a data dependency
        meta = {id(x.value) for x in ast.walk(v) if isinstance(x, ast.Attribute) and x.attr in ("device", "dtype") and isinstance(x.value, ast.Name)}
        uses = {x.id for x in ast.walk(v) if isinstance(x, ast.Name) and id(x) not in meta} & reg_locals
        uses |= {x.attr for x in ast.walk(v) if isinstance(x, ast.Attribute) and chain(x.value) == "self" and x.attr in regs_here}
        if uses:
            out.append((attr, uses, a))
    return out


# ---- C18-5 ---------------------------------------------------------------------------------------------------------
def load_hooks(idx: ProgramIndex, rep: Report):
    gm = idx.cls("gpytorch.module", "Module")
    ld = idx.method(gm, "_load_from_state_dict", own=True)
    ok = all_normal_exits_pass(body_without_docstring(ld.node), c03._is_clear_call) and all_normal_exits_pass(body_without_docstring(ld.node), lambda n: any(isinstance(c, ast.Call) and is_super_call(c, "_load_from_state_dict") for c in ast.walk(n)))
    rep.add("C18-5", "gpytorch.module:Module._load_from_state_dict", ld.where, ok, "clears caches and delegates on every path" if ok else "Module._load_from_state_dict does not clear caches and delegate on every path", {})
    # legacy pre-hooks: only add missing keys
    n = 0
    for fi in idx.all_functions():
        if fi.cls is None and fi.name.startswith("_ensure_") and "state_dict" in fi.params:
            n += 1
            probs = []
            for node in ast.walk(fi.node):
                if isinstance(node, ast.Assign):
                    for t in node.targets:
                        if isinstance(t, ast.Subscript) and chain(t.value) == "state_dict":
                            # must be guarded by `key not in state_dict`
                            if not _guarded_by_missing(fi.node, node, src(t.slice)):
                                probs.append("pre-hook overwrites state_dict[%s] even when the key is present" % src(t.slice))
                if isinstance(node, ast.Call) and isinstance(node.func, ast.Attribute) and node.func.attr in ("pop", "clear") and chain(node.func.value) == "state_dict":
                    # popping the legacy key that the guard tests is a rename
                    key = src(node.args[0]) if node.args else ""
                    guarded = any(isinstance(g, ast.If) and isinstance(g.test, ast.Compare) and isinstance(g.test.ops[0], ast.In) and src(g.test.left) == key
                                  and chain(g.test.comparators[0]) == "state_dict" and node in list(ast.walk(g)) for g in ast.walk(fi.node))
                    if not guarded:
                        probs.append("pre-hook removes entries from the state dict unconditionally")
            rep.add("C18-5", "%s:%s" % (fi.module.name, fi.name), fi.where, not probs, "mutates the state dict only under a test of the checkpoint's format (missing key / legacy key rename)" if not probs else "; ".join(probs), {})
    rep.floor("C18-5", "legacy load pre-hooks", n, 1)
    # overrides of _load_from_state_dict in gpytorch Modules chain to super (shared with C03-3)
    for cls in idx.subclasses(gm, strict=True):
        f = cls.methods.get("_load_from_state_dict")
        if f is None:
            continue
        ok = all_normal_exits_pass(body_without_docstring(f.node), lambda nd: any(isinstance(c, ast.Call) and is_super_call(c, "_load_from_state_dict") for c in ast.walk(nd)))
        rep.add("C18-5", "%s:%s._load_from_state_dict" % (cls.module.name, cls.qualname), f.where, ok, "override delegates to super()._load_from_state_dict (which clears caches)" if ok else "override of _load_from_state_dict does not delegate: caches survive the load", {})


def _guarded_by_missing(fn: ast.AST, stmt: ast.AST, key_src: str) -> bool:
    """the mutation is conditional on the checkpoint's format: inside `if K not in state_dict` (missing key) or
    `if OLD in state_dict` with OLD different from the key written (legacy rename)"""
    for n in ast.walk(fn):
        if isinstance(n, ast.If) and any(stmt is s or stmt in list(ast.walk(s)) for s in n.body):
            t = n.test
            if isinstance(t, ast.Compare) and len(t.ops) == 1 and chain(t.comparators[0]) == "state_dict":
                if isinstance(t.ops[0], ast.NotIn):
                    return True
                if isinstance(t.ops[0], ast.In) and src(t.left) != key_src:
                    return True
    return False


# ---- C18-6 ---------------------------------------------------------------------------------------------------------
def init_flags(idx: ProgramIndex, rep: Report):
    n = 0
    for cls in idx.package_classes():
        for m in cls.methods.values():
            for c in calls_in(m.node):
                if isinstance(c.func, ast.Attribute) and c.func.attr == "fill_" and isinstance(c.func.value, ast.Attribute) and chain(c.func.value.value) == "self":
                    attr = c.func.value.attr
                    n += 1
                    regs = registered_names(idx, cls)
                    ok = attr in regs
                    rep.add("C18-6", "%s:%s.%s:%s" % (cls.module.name, cls.qualname, m.name, attr), "%s:%d" % (m.module.relpath, c.lineno), ok,
                            "flag `%s` is a registered buffer (saved and loaded with the model)" % attr if ok else "flag `%s` is flipped with fill_() at run time but is not a registered buffer: a loaded model re-runs its one-time initialisation" % attr, {})
    rep.floor("C18-6", "flags written with fill_()", n, 5)


# ---- C18-8 ---------------------------------------------------------------------------------------------------------
REGISTRATION_EXEMPT = {"__setstate__": "unpickling", "_load_from_state_dict": "load hook", "initialize": "explicit re-initialisation by the user"}


def _registers_in_init(idx: ProgramIndex, cls: ClassInfo, name: str) -> bool:
    """is buffer/parameter `name` registered on every construction (in __init__ itself or in a method __init__ calls unconditionally)?"""
    init = cls.lookup("__init__")
    if init is None:
        return False
    reach = {"__init__"} | _init_reachable(cls)
    for k in cls.repo_mro():
        for mname, m in k.methods.items():
            if mname not in reach:
                continue
            for c in calls_in(m.node):
                if isinstance(c.func, ast.Attribute) and c.func.attr in ("register_buffer", "register_parameter") and const_str(get_arg(c, 0, "name") or ast.Constant(value=None)) == name:
                    if mname == "__init__":
                        return not _enclosing_tests(m.node, c)
                    # registered by a helper: the call of the helper in __init__ must be unconditional
                    for c2 in calls_in(init.node):
                        if isinstance(c2.func, ast.Attribute) and chain(c2.func.value) == "self" and c2.func.attr == mname and not _enclosing_tests(init.node, c2):
                            return True
    return False


def lazy_registration(idx: ProgramIndex, rep: Report):
    """The key set of state_dict() has to be a function of the architecture, not of the call history: a buffer or parameter that is
    registered for the first time by forward (or by anything else that runs after construction) is missing from a freshly constructed
    model of the same architecture, so a strict load_state_dict raises and a non-strict one silently drops prediction-relevant state."""
    rep.rule("C18-8", "buffers / parameters are registered at construction: nothing is registered for the first time after __init__ (the state_dict key set does not depend on the call history)")
    gm = idx.cls("gpytorch.module", "Module")
    n = 0
    for cls in idx.package_classes():
        if not cls.is_subclass_of(gm) and not any(getattr(b, "name", "") == "Module" for b in cls.mro()):
            continue
        reach = {"__init__"} | _init_reachable(cls)
        for mname, m in sorted(cls.methods.items()):
            for c in calls_in(m.node):
                if not (isinstance(c.func, ast.Attribute) and c.func.attr in ("register_buffer", "register_parameter") and chain(c.func.value) == "self"):
                    continue
                nm = get_arg(c, 0, "name")
                name = const_str(nm) if nm is not None else None
                if name is None:
                    continue
                n += 1
                inst = "%s:%s.%s[register %s]" % (cls.module.name, cls.qualname, mname, name)
                where = "%s:%d" % (m.module.relpath, c.lineno)
                if mname in REGISTRATION_EXEMPT:
                    rep.add("C18-8", inst, where, True, "registration in %s (%s)" % (mname, REGISTRATION_EXEMPT[mname]), {}, trivial=True)
                    continue
                if mname == "__init__":
                    guards = _enclosing_tests(m.node, c)
                    if not guards:
                        rep.add("C18-8", inst, where, True, "registered unconditionally at construction", {}, trivial=True)
                        continue
                    # conditional registration in __init__: fine if the condition is configuration (constructor arguments) and no later
                    # method registers the same name; a later first registration is judged at that site
                    rep.add("C18-8", inst, where, True, "registered at construction under a condition on the constructor arguments (architecture)", {"guards": [src(g)[:60] for g in guards]}, trivial=True)
                    continue
                # outside __init__: who calls this method?
                if _registers_in_init(idx, cls, name):
                    rep.add("C18-8", inst, where, True, "re-registration of a name that every construction registers", {})
                    continue
                callers_after_init = [f2.name for f2 in cls.all_methods().values() if f2.name not in reach and f2.name != mname and any(isinstance(c2.func, ast.Attribute) and chain(c2.func.value) == "self" and c2.func.attr == mname for c2 in calls_in(f2.node))]
                if mname in reach and not callers_after_init:
                    # helper of __init__ only; conditional call in __init__ = architecture
                    rep.add("C18-8", inst, where, True, "registered by a helper that only __init__ calls", {}, trivial=True)
                    continue
                rep.add("C18-8", inst, where, False,
                        "`%s` is registered for the first time in %s%s, i.e. after construction when the constructor did not register it: state_dict() of a used model has a key that a freshly constructed model of the same architecture lacks (strict load raises 'Unexpected key', strict=False drops it)" % (
                            name, mname, " (called from %s)" % ", ".join(sorted(set(callers_after_init))) if callers_after_init else ""), {})
    rep.floor("C18-8", "buffer / parameter registrations", n, 40)


# ---- C18-9 ---------------------------------------------------------------------------------------------------------
def copyable_caches(idx: ProgramIndex, rep: Report):
    """copy.deepcopy refuses non-leaf tensors.  A class that memoises tensors computed from its parameters (@cached / add_to_cache ->
    self._memoize_cache, or attribute caches) holds such tensors between calls, so 'deep copy at any moment of a history' needs the
    class (or an ancestor in the package) to drop or detach the cache when copied: __deepcopy__ / __getstate__."""
    rep.rule("C18-9", "modules that memoise graph-carrying tensors between calls can be deep-copied at any moment: the memo is dropped on copy (__deepcopy__ / __getstate__)")
    gm = idx.cls("gpytorch.module", "Module")
    n = 0
    for cls in sorted(idx.package_classes(), key=lambda c: (c.module.name, c.qualname)):
        if not cls.is_subclass_of(gm):
            continue
        own_cached = sorted(m.name for m in cls.methods.values() if any("cached" in src(d) for d in getattr(m.node, "decorator_list", [])))
        if not own_cached:
            continue
        # only the class that introduces memoisation in its hierarchy is judged (sub-classes inherit the verdict)
        if any(any("cached" in src(d) for d in getattr(m.node, "decorator_list", [])) for b in cls.repo_mro()[1:] for m in b.methods.values()):
            continue
        n += 1
        guard = None
        for b in cls.repo_mro():
            for hook in ("__deepcopy__", "__getstate__"):
                if hook in b.methods and ("_memoize_cache" in src(b.methods[hook].node) or "clear_cache" in src(b.methods[hook].node)):
                    guard = "%s.%s" % (b.name, hook)
        # a cache that only ever holds detached tensors is harmless
        detached = all(any(isinstance(c.func, ast.Attribute) and c.func.attr == "detach" for c in calls_in(cls.methods[mn].node)) for mn in own_cached)
        ok = guard is not None or detached
        rep.add("C18-9", "%s:%s[memo]" % (cls.module.name, cls.qualname), cls.where, ok,
                ("the memo is dropped on copy by %s" % guard) if guard else ("every memoised value is detached" if detached else
                "memoises %s in self._memoize_cache (cleared only by the next training call, train() or load_state_dict) and neither the class nor an ancestor drops the memo in __deepcopy__/__getstate__: copy.deepcopy(model) between two calls raises 'Only Tensors created explicitly by the user support the deepcopy protocol'" % ", ".join(own_cached)), {})
    rep.floor("C18-9", "module classes introducing memoisation", n, 1)
    # ... the same for added-loss terms: a module that stores a term computed from its parameters in a training-mode call
    # (update_added_loss_term) keeps graph-carrying tensors in self._added_loss_terms until the next call
    k = 0
    for cls in sorted(idx.package_classes(), key=lambda c: (c.module.name, c.qualname)):
        if not cls.is_subclass_of(gm):
            continue
        writers = sorted(m.name for m in cls.methods.values() if any(isinstance(c.func, ast.Attribute) and c.func.attr == "update_added_loss_term" and isinstance(c.func.value, ast.Name) and c.func.value.id == (m.params[0] if m.params else "") for c in calls_in(m.node)))
        if not writers:
            continue
        k += 1
        guard = None
        for b in cls.repo_mro():
            for hook in ("__deepcopy__", "__getstate__"):
                if hook in b.methods and "_added_loss_terms" in src(b.methods[hook].node):
                    guard = "%s.%s" % (b.name, hook)
        rep.add("C18-9", "%s:%s[added loss term]" % (cls.module.name, cls.qualname), cls.where, guard is not None,
                ("the stored term is dropped on copy by %s" % guard) if guard else
                "%s stores an added-loss term built from the module's parameters in self._added_loss_terms (kept until the next call) and neither the class nor an ancestor drops it in __deepcopy__/__getstate__: copy.deepcopy of the model after any forward / training step raises 'Only Tensors created explicitly by the user support the deepcopy protocol'" % ", ".join(writers), {})
    rep.floor("C18-9", "module classes storing added-loss terms", k, 2)


# ---- C18-10 --------------------------------------------------------------------------------------------------------
def picklable_closures(idx: ProgramIndex, rep: Report):
    """pickle cannot serialise a lambda or a function defined inside another function.  Module.register_prior stores the closures it is
    given in self._priors, so every lambda / local function that reaches it (directly, or created by register_prior itself for the
    string form) makes the whole model unpicklable (torch.save(model), pickle.dumps)."""
    rep.rule("C18-10", "closures stored on modules (register_prior) are picklable: bound methods / module-level functions, no lambdas or local functions")
    n = 0
    for fi in idx.all_functions():
        local_defs = {d.name for d in ast.walk(fi.node) if isinstance(d, (ast.FunctionDef, ast.AsyncFunctionDef)) and d is not fi.node}
        for c in calls_in(fi.node):
            if not (isinstance(c.func, ast.Attribute) and c.func.attr == "register_prior"):
                continue
            n += 1
            args = list(c.args[2:]) + [k.value for k in c.keywords if k.arg in ("param_or_closure", "setting_closure")]
            bad = []
            for a in args:
                if isinstance(a, ast.Lambda):
                    bad.append("a lambda")
                elif isinstance(a, ast.Name) and a.id in local_defs:
                    bad.append("the local function `%s`" % a.id)
            anon = "%s:%s[register_prior(%s)]" % (fi.module.name, fi.qualname, const_str(c.args[0]) if c.args and const_str(c.args[0]) else "_")
            rep.add("C18-10", anon, "%s:%d" % (fi.module.relpath, c.lineno), not bad,
                    "closures are bound methods / importable functions (or a parameter name)" if not bad else
                    "register_prior receives %s: it is stored in self._priors and pickle cannot serialise it, so pickle.dumps(model) / torch.save(model) raise for every model containing this module with the prior set" % " and ".join(sorted(set(bad))), {})
    # the string form: Module.register_prior builds closures itself
    gm = idx.cls("gpytorch.module", "Module")
    rp = idx.method(gm, "register_prior", own=True)
    local_defs = [d for d in ast.walk(rp.node) if isinstance(d, (ast.FunctionDef, ast.Lambda)) and d is not rp.node]
    stored = []
    for d in local_defs:
        nm = getattr(d, "name", None)
        if nm and any(isinstance(t, ast.Tuple) and any(isinstance(e, ast.Name) and e.id == nm for e in t.elts) for t in ast.walk(rp.node)):
            stored.append(nm)
        elif nm and any(isinstance(a, ast.Assign) and isinstance(a.value, ast.Name) and a.value.id == nm for a in ast.walk(rp.node)):
            stored.append(nm)
    n += 1
    rep.add("C18-10", "%s:Module.register_prior[string form]" % gm.module.name, rp.where, not stored,
            "the string form stores no local function" if not stored else
            "for a parameter given by name register_prior wraps it in the local function(s) %s and stores them in self._priors: every prior registered by name (register_prior(name, prior, 'param')) makes the model unpicklable" % ", ".join("`%s`" % x for x in sorted(set(stored))), {})
    rep.floor("C18-10", "register_prior sites", n, 30)


# ---- C18-11 --------------------------------------------------------------------------------------------------------
def mirrored_buffers(idx: ProgramIndex, rep: Report):
    """Transformed priors keep their parameters twice: as `_transformed_<name>` buffers (what state_dict carries) and as attributes of
    `base_dist` (what log_prob evaluates).  At construction the two are the same tensor objects; every operation that REPLACES the buffers
    (Module._apply: .double() / .to() / .cuda()) or fills them from a state_dict while the prior is a sub-module must copy them over to
    base_dist again - otherwise state_dict and behaviour diverge.  The re-synchronisation helper must be called from each such entry point."""
    rep.rule("C18-11", "a prior that mirrors its buffers in base_dist re-synchronises the mirror wherever the buffers are replaced: in _apply (dtype / device moves) as well as after loading")
    P = idx.find_class("Prior")
    helper = "_load_transformed_to_base_dist"
    try:
        idx.function("gpytorch.priors.utils", helper)
    except AnalysisError:
        raise AnalysisError("C18-11: gpytorch.priors.utils.%s vanished (anchor)" % helper)
    callers = {name for name, m in P.methods.items() if any(isinstance(c.func, ast.Name) and c.func.id == helper for c in calls_in(m.node))}
    n = 0
    for entry, why in (("load_state_dict", "a state_dict loaded into the prior itself"),
                       ("_apply", "Module._apply replaces every buffer by fn(buffer): .double(), .float(), .to(device)")):
        n += 1
        ok = entry in callers
        rep.add("C18-11", "%s:Prior.%s[mirror of the _transformed_ buffers]" % (P.module.name, entry), (P.methods[entry].where if entry in P.methods else P.where), ok,
                "calls %s" % helper if ok else
                "Prior does not re-synchronise base_dist in %s (%s): after model.double() the _transformed_* buffers are new tensors, base_dist keeps the old ones; a later load_state_dict into the model updates the buffers (and state_dict() shows the loaded values) while log_prob goes on using the constructor values" % (entry, why), {})
    rep.floor("C18-11", "buffer-replacing entry points of Prior", n, 2)


# ---- C18-12 --------------------------------------------------------------------------------------------------------
def closures_use_their_argument(idx: ProgramIndex, rep: Report):
    """copy.deepcopy (and pickle) treat functions as atoms: a closure stored with a prior is SHARED between a model and its copy.  That is
    harmless as long as the closure only works on the module it is handed; a closure that reaches for the `self` of the scope it was
    created in keeps evaluating (and setting) the prior on the ORIGINAL module after a deep copy - the copy's objective then follows the
    original's parameters."""
    rep.rule("C18-12", "closures stored with a prior work on the module they are called with: no reference to the `self` of the enclosing scope (they are shared by deep copies)")
    n = 0
    for fi in sorted(idx.all_functions(), key=lambda f: (f.module.name, f.qualname)):
        for c in calls_in(fi.node):
            if not (isinstance(c.func, ast.Attribute) and c.func.attr == "register_prior"):
                continue
            for a in list(c.args) + [k.value for k in c.keywords]:
                if isinstance(a, ast.Lambda) and a.args.args:
                    n += 1
                    captured = sorted({x.id for x in ast.walk(a.body) if isinstance(x, ast.Name) and x.id == "self" and "self" not in [q.arg for q in a.args.args]})
                    if captured:
                        rep.add("C18-12", "%s:%s[closure at register_prior]" % (fi.module.name, fi.qualname), "%s:%d" % (fi.module.relpath, a.lineno), False,
                                "the closure `%s` captures the enclosing self: after copy.deepcopy(model) the copy's prior term is evaluated on (and its gradient flows to) the original module" % " ".join(src(a).split())[:60], {})
    # the closures that Module.register_prior builds for the string form
    M = idx.cls("gpytorch.module", "Module")
    rp = idx.method(M, "register_prior", own=True)
    me = rp.params[0]
    inner = [f for f in ast.walk(rp.node) if isinstance(f, (ast.FunctionDef, ast.Lambda)) and f is not rp.node]
    for f in inner:
        params = [q.arg for q in f.args.args]
        if not params:
            continue
        n += 1
        body_nodes = f.body if isinstance(f.body, list) else [f.body]
        captured = any(isinstance(x, ast.Name) and x.id == me for b in body_nodes for x in ast.walk(b))
        name = getattr(f, "name", "<lambda>")
        rep.add("C18-12", "gpytorch.module:Module.register_prior[%s]" % name, "%s:%d" % (rp.module.relpath, f.lineno), not captured,
                "works on its module argument `%s`" % params[0] if not captured else
                "the closure %s(%s) built for the string form of register_prior refers to `%s`, the module that registered the prior, instead of its argument: functions are atoms for copy.deepcopy, so a deep copy of the model evaluates (and sets) this prior on the ORIGINAL module - its objective drifts when the original trains on, and the prior's gradient goes to the original" % (name, ", ".join(params), me), {})
    rep.floor("C18-12", "closures stored with priors", n, 30)


# ---- C18-13 --------------------------------------------------------------------------------------------------------
def deepcopy_overrides(idx: ProgramIndex, rep: Report):
    """Deep-copying is one of the round trips.  The default protocol copies the whole instance dictionary; an override has to carry at
    least as much.  (a) An override that REBUILDS the object with the class constructor carries only what the constructor takes: priors
    and constraints registered afterwards, requires_grad flags, buffers set later are lost.  (b) An override that returns nothing drops
    the object (the owner re-creates it from its own state later): whoever plants a hand-built instance of such a class on another
    object stores state that deep-copying silently discards."""
    rep.rule("C18-13", "a __deepcopy__ override carries the whole instance state (it does not rebuild the object from constructor arguments), and no hand-built object of a class whose __deepcopy__ drops it is the only holder of prediction-relevant state")
    n = 0
    droppers = []
    for fi in sorted(idx.all_functions(), key=lambda f: (f.module.name, f.qualname)):
        if fi.cls is None or fi.name != "__deepcopy__":
            continue
        n += 1
        sn = fi.params[0]
        body = body_without_docstring(fi.node)
        rets = [r for r in ast.walk(fi.node) if isinstance(r, ast.Return) and r.value is not None and not (isinstance(r.value, ast.Constant) and r.value.value is None)]
        if not rets:
            droppers.append(fi.cls)
            rep.add("C18-13", "%s:%s.__deepcopy__[drops the object]" % (fi.module.name, fi.qualname.rsplit(".", 1)[0]), fi.where, True,
                    "returns None: the copy does not get this object (its owner rebuilds it); holders are checked below", {}, trivial=True)
            continue
        rebuilds = [c for c in calls_in(fi.node) if chain(c.func) in ("%s.__class__" % sn, "type(%s)" % sn) or (isinstance(c.func, ast.Name) and c.func.id == fi.cls.name)]
        copies_dict = any(isinstance(x, ast.Attribute) and x.attr == "__dict__" for x in ast.walk(fi.node)) or any(isinstance(c.func, ast.Attribute) and c.func.attr in ("__reduce_ex__", "__getstate__") for c in calls_in(fi.node))
        ok = not rebuilds or copies_dict
        rep.add("C18-13", "%s:%s.__deepcopy__[whole state]" % (fi.module.name, fi.qualname.rsplit(".", 1)[0]), fi.where, ok,
                "copies the instance dictionary" if ok else
                "the copy is rebuilt with `%s(...)` from %d constructor argument(s): priors / constraints registered on the object afterwards, requires_grad flags and later buffers are not carried (deepcopy of an SGPR model with a prior on the inducing points: MLL -1.0281 vs -0.9575 for the copy; frozen inducing points become trainable)" % (src(rebuilds[0].func), len(rebuilds[0].args) + len(rebuilds[0].keywords)), {})
    rep.floor("C18-13", "__deepcopy__ overrides", n, 2)
    # (b) planters of objects whose class drops them on deepcopy
    names = {c.name for c in droppers} | {k.name for c in droppers for k in idx.subclasses(c)}
    attr_of_dropper = set()
    for fi in idx.all_functions():
        for a in ast.walk(fi.node):
            if isinstance(a, ast.Assign) and isinstance(a.value, ast.Call) and (chain(a.value.func) or "").split(".")[-1] in names | {"prediction_strategy"}:
                for t in a.targets:
                    if isinstance(t, ast.Attribute):
                        attr_of_dropper.add(t.attr)
    m = 0
    for fi in sorted(idx.all_functions(), key=lambda f: (f.module.name, f.qualname)):
        if fi.cls is None:
            continue
        sn = fi.params[0] if fi.params else None
        planted = []
        for a in ast.walk(fi.node):
            if not isinstance(a, ast.Assign):
                continue
            for t in a.targets:
                if isinstance(t, ast.Attribute) and t.attr in attr_of_dropper and isinstance(t.value, ast.Name) and t.value.id != sn \
                        and not (isinstance(a.value, ast.Constant) and a.value.value is None):
                    planted.append((t, a))
        if not planted:
            continue
        # the exact GP's own fantasy path plants a strategy on a copy that holds the data it was built from (inputs and targets are
        # extended on the copy): a rebuild gives the same strategy.  Elsewhere the planted object is built from quantities the target
        # object does not hold.
        rebuilt_from_owner = fi.cls.name == "ExactGP"
        m += 1
        t, a = planted[-1]
        rep.add("C18-13", "%s:%s[plants .%s on another object]" % (fi.module.name, fi.qualname, t.attr), "%s:%d" % (fi.module.relpath, a.lineno), rebuilt_from_owner,
                "planted on a copy that holds the data the object was built from" if rebuilt_from_owner else
                "line %d stores a hand-built object whose class drops itself on deepcopy (__deepcopy__ returns None) in .%s of another object: the state it was built from (pseudo-observation covariance, hand-made mean cache) lives nowhere else on that object, so copy.deepcopy of the returned model predicts something else (posterior mean 0.3344 vs 0.1618)" % (a.lineno, t.attr), {})
    rep.floor("C18-13", "functions planting droppable objects on other objects", m, 2)


def _enclosing_pairs(root: ast.AST, target: ast.AST):
    """[(test, in_true_branch)] of the if statements between root and target"""
    from .c10 import _tests_around
    return _tests_around(root, target)
