"""C19 - hand-written derivatives: the autograd-Function contract (structural clauses).

C19-1  arity: backward returns one value per forward input on every path (surplus must be literal None); the unpacking of
       ctx.saved_tensors matches save_for_backward; ctx attributes read in backward are stored in forward under the same guard
C19-2  storage/version consistency of in-place code (abstract interpretation over all paths): returned/saved values are not
       overwritten afterwards through an alias, no stale reads, no write to inputs, no write to saved tensors in backward
C19-3  a literal None gradient for a tensor input implies that forward refuses needs_input_grad for it
C19-4  the kernel-side dispatch guard covers every precondition of the Function; RBF/Matern agree; apply arity matches
Does not decide that the saved expression is the derivative.  (DESIGN.md section 4, C19.)
"""
from __future__ import annotations

import ast
import copy
import itertools
from typing import Dict, List, Optional, Set, Tuple

from ..cfg import enumerate_paths, Path, RETURN, FALL, RAISE
from ..domains.storage import StorageInterp, TV, mutating_params
from ..index import (AnalysisError, ClassInfo, External, FuncInfo, ProgramIndex, body_without_docstring, call_name, calls_in, chain,
                     const_str, norm, src, walk_no_nested)
from ..report import Report

NON_TENSOR_INPUTS = {
    # Function -> positions of inputs that are not tensors (no gradient exists for them)
    "RBFCovariance": {3: "sq_dist_func is a callable"},
    "MaternCovariance": {3: "nu is a python float", 4: "dist_func is a callable"},
}


def functions(idx: ProgramIndex) -> List[ClassInfo]:
    out = []
    for c in idx.package_classes():
        if any(isinstance(b, External) and b.name == "Function" for b in c.mro()):
            out.append(c)
    return sorted(out, key=lambda c: (c.module.name, c.qualname))


def run(idx: ProgramIndex, rep: Report, tier: str):
    rep.explanation = (
        "For each of the torch.autograd.Function subclasses: arity analysis of backward's returns against forward's inputs (helpers "
        "inlined), saved-tensor arity, ctx-attribute def/use; an abstract interpretation of forward and backward in a storage/version "
        "domain (each tensor value = (storage id, version); out-of-place ops allocate, `op_()`/slice assignment/`+=`/out= bump the "
        "version and refresh only the name used, views share storage; boolean locals such as needs_grad are path-split so "
        "`x.clone() if needs_grad else x` is exact) proving on every path that returned and saved values are not overwritten through "
        "an alias, that no stale name is read, that inputs and saved tensors are never written; the None-gradient => refusal rule; "
        "and the dispatch guard of the RBF/Matern kernels against the Functions' preconditions. The derivative formulae are not decided.")
    rep.rule("C19-1", "gradient arity, saved-tensor arity and ctx-attribute def/use agree between forward and backward")
    rep.rule("C19-2", "storage/version consistency of in-place code on every path of forward and backward")
    rep.rule("C19-3", "a literal None gradient for a tensor input implies that forward raises when that input needs a gradient")
    rep.rule("C19-5", "Functions and their helpers address matrix axes from the right (explicit negative dims): gradients stay correct for any batch shape")
    rep.rule("C19-4", "the kernel-side dispatch guard covers the Function's preconditions; sibling kernels agree; apply arity matches")
    fs = functions(idx)
    rep.floor("C19-1", "autograd Functions", len(fs), 6)
    helpers = module_helpers(idx, fs)
    for c in fs:
        arity(idx, c, rep)
        storage(idx, c, rep, helpers)
        none_refused(idx, c, rep)
    dispatch(idx, rep, fs)
    axis_addressing(idx, rep, fs)
    saved_outputs_intact(idx, rep)
    outputs_are_computed(idx, rep, fs)
    once_differentiable_backward(idx, rep, fs)
    rep.assume("callables passed into a Function (sq_dist_func, dist_func) return freshly allocated tensors (Kernel.covar_dist does)")


def module_helpers(idx: ProgramIndex, fs: List[ClassInfo]) -> Dict[str, Set[int]]:
    out: Dict[str, Set[int]] = {}
    mods = {c.module.name for c in fs}
    for mn in mods:
        mi = idx.module(mn)
        for name, f in mi.functions.items():
            mp = mutating_params(f.node)
            if mp:
                out[name] = mp
    return out


# ---- C19-1 ---------------------------------------------------------------------------------------------------------
def _return_tuples(cls: ClassInfo, fi: FuncInfo, depth=0) -> List[List[ast.AST]]:
    """list of returned element lists, following `return Helper._backward(...)` one level"""
    out = []
    for r in ast.walk(fi.node):
        if isinstance(r, ast.Return) and r.value is not None:
            v = r.value
            if isinstance(v, ast.Tuple):
                out.append(list(v.elts))
            elif isinstance(v, ast.Call) and depth < 2 and isinstance(v.func, ast.Attribute):
                # helper on a Function class
                target = None
                cn = chain(v.func) or ""
                parts = cn.split(".")
                if len(parts) == 2:
                    for k in [cls] + [x for x in cls.module.classes.values()]:
                        if k.name == parts[0] and parts[1] in k.methods:
                            target = (k, k.methods[parts[1]])
                    r2 = idx_global.resolve_name(cls.module, parts[0]) if idx_global else None
                    if target is None and isinstance(r2, ClassInfo) and parts[1] in r2.methods:
                        target = (r2, r2.methods[parts[1]])
                if target:
                    out += _return_tuples(target[0], target[1], depth + 1)
                else:
                    out.append([v])
            else:
                out.append([v])
    return out


idx_global: Optional[ProgramIndex] = None


def arity(idx: ProgramIndex, cls: ClassInfo, rep: Report):
    global idx_global
    idx_global = idx
    fwd = idx.method(cls, "forward", own=True)
    bwd = idx.method(cls, "backward", own=True)
    n_in = len(fwd.params) - 1
    inst = "%s:%s" % (cls.module.name, cls.qualname)
    probs = []
    rets = _return_tuples(cls, bwd)
    if not rets:
        probs.append("backward has no return")
    for elts in rets:
        if len(elts) < n_in:
            probs.append("backward returns %d value(s) for %d forward inputs" % (len(elts), n_in))
        for e in elts[n_in:]:
            if not (isinstance(e, ast.Constant) and e.value is None):
                probs.append("surplus gradient `%s` is not None" % src(e))
    rep.add("C19-1", inst + "[gradient arity]", bwd.where, not probs, "backward returns %s value(s) for %d inputs on all %d return(s) (surplus are None)" % (sorted({len(e) for e in rets}), n_in, len(rets)) if not probs else "; ".join(sorted(set(probs))), {"inputs": n_in})
    # saved tensors
    saves = [c for c in calls_in(fwd.node) if chain(c.func) == "%s.save_for_backward" % fwd.params[0]]
    arities = {len(c.args) for c in saves}
    probs = []
    bctx = bwd.params[0]
    need = None
    for n in ast.walk(bwd.node):
        if isinstance(n, ast.Assign) and chain(n.value) == "%s.saved_tensors" % bctx:
            t = n.targets[0]
            need = len(t.elts) if isinstance(t, ast.Tuple) else None
        if isinstance(n, ast.Subscript) and chain(n.value) == "%s.saved_tensors" % bctx and isinstance(n.slice, ast.Constant):
            need = max(need or 0, n.slice.value + 1)
    if need is not None:
        if not saves:
            probs.append("backward unpacks saved tensors but forward saves none")
        elif len(arities) != 1:
            probs.append("save_for_backward is called with different arities %s" % sorted(arities))
        else:
            a = arities.pop()
            exact = any(isinstance(n, ast.Assign) and chain(n.value) == "%s.saved_tensors" % bctx and isinstance(n.targets[0], ast.Tuple) for n in ast.walk(bwd.node))
            if (exact and a != need) or (not exact and a < need):
                probs.append("forward saves %d tensor(s) but backward unpacks %d" % (a, need))
    rep.add("C19-1", inst + "[saved tensors]", fwd.where, not probs, "save_for_backward arity matches the unpacking in backward (%s)" % need if not probs else "; ".join(probs), {})
    # ctx attributes
    fctx = fwd.params[0]
    stored: Dict[str, Optional[str]] = {}
    for n in ast.walk(fwd.node):
        if isinstance(n, ast.Assign):
            for t in n.targets:
                if isinstance(t, ast.Attribute) and chain(t.value) == fctx:
                    stored[t.attr] = _guard_of(fwd.node, n)
    probs = []
    nread = 0
    for n in ast.walk(bwd.node):
        if isinstance(n, ast.Attribute) and chain(n.value) == bctx and isinstance(n.ctx, ast.Load) and n.attr not in ("saved_tensors", "needs_input_grad"):
            nread += 1
            if n.attr not in stored:
                probs.append("backward reads ctx.%s, which forward never stores" % n.attr)
            else:
                g = _guard_of(bwd.node, n)
                if stored[n.attr] is not None and g != stored[n.attr]:
                    probs.append("ctx.%s is stored under `%s` but read under `%s`" % (n.attr, stored[n.attr], g))
    if nread or stored:
        rep.add("C19-1", inst + "[ctx attributes]", bwd.where, not probs, "every ctx attribute read in backward is stored in forward under the same guard (%s)" % sorted(stored) if not probs else "; ".join(sorted(set(probs))), {})


def _guard_of(fn: ast.AST, node: ast.AST) -> Optional[str]:
    """source of the innermost `if` test (then-branch) enclosing node, None if unconditional"""
    best = None

    def rec(body, guard):
        nonlocal best
        for st in body:
            if any(x is node for x in ast.walk(st)):
                if isinstance(st, ast.If):
                    if any(x is node for s in st.body for x in ast.walk(s)):
                        best = norm(st.test)
                        rec(st.body, norm(st.test))
                    elif any(x is node for s in st.orelse for x in ast.walk(s)):
                        best = "not (%s)" % norm(st.test)
                        rec(st.orelse, best)
                else:
                    for fld in ("body", "orelse", "finalbody"):
                        sub = getattr(st, fld, None)
                        if isinstance(sub, list) and sub and isinstance(sub[0], ast.stmt):
                            rec(sub, guard)
    rec(fn.body, None)
    return best


# ---- C19-2 ---------------------------------------------------------------------------------------------------------
class _ResolveIfExp(ast.NodeTransformer):
    def __init__(self, assignment: Dict[str, bool]):
        self.a = assignment

    def visit_IfExp(self, node):
        self.generic_visit(node)
        t = node.test
        neg = False
        while isinstance(t, ast.UnaryOp) and isinstance(t.op, ast.Not):
            t, neg = t.operand, not neg
        if isinstance(t, ast.Name) and t.id in self.a:
            v = self.a[t.id] != neg
            return node.body if v else node.orelse
        return node


def _tracked_booleans(fn: ast.AST) -> List[str]:
    """locals assigned from any()/all()/comparisons/needs_input_grad and used as bare tests"""
    assigned = set()
    for n in ast.walk(fn):
        if isinstance(n, ast.Assign) and len(n.targets) == 1 and isinstance(n.targets[0], ast.Name):
            v = n.value
            if isinstance(v, ast.Call) and chain(v.func) in ("any", "all", "bool") or isinstance(v, (ast.Compare, ast.BoolOp)):
                assigned.add(n.targets[0].id)
    used = set()
    for n in ast.walk(fn):
        if isinstance(n, (ast.If, ast.IfExp)):
            t = n.test
            while isinstance(t, ast.UnaryOp):
                t = t.operand
            if isinstance(t, ast.Name) and t.id in assigned:
                used.add(t.id)
    return sorted(used)


def interp_function(fi: FuncInfo, role: str, callable_args: Set[str], helpers: Dict[str, Set[int]], track_state: bool = False,
                    fresh_properties: Optional[Set[str]] = None, arg_attrs_alias: bool = False) -> Tuple[List[str], int]:
    ctx = fi.params[0]
    tracked = _tracked_booleans(fi.node)
    all_problems: List[str] = []
    npaths = 0
    paths = enumerate_paths(body_without_docstring(fi.node), limit=20000)
    for vals in itertools.product([False, True], repeat=len(tracked)):
        assignment = dict(zip(tracked, vals))
        for p in paths:
            if p.outcome == RAISE:
                continue
            # consistency with the tracked booleans
            ok = True
            for s in p.steps:
                if s.kind == "assume":
                    t, neg = s.node, False
                    while isinstance(t, ast.UnaryOp) and isinstance(t.op, ast.Not):
                        t, neg = t.operand, not neg
                    if isinstance(t, ast.Name) and t.id in assignment and (assignment[t.id] != neg) != s.truth:
                        ok = False
                        break
            if not ok:
                continue
            # at most one branch of an equality chain on the same variable can hold
            eq_true = [src(s.node) for s in p.steps if s.kind == "assume" and s.truth and isinstance(s.node, ast.Compare) and isinstance(s.node.ops[0], ast.Eq)]
            if len({t.split("==")[0].strip() for t in eq_true}) < len(eq_true):
                continue
            npaths += 1
            si = StorageInterp([a for a in fi.params[1:]], callable_args, helpers, self_name=(fi.params[0] if track_state else None), arg_attrs_alias=arg_attrs_alias)
            if track_state and fresh_properties:
                # properties that compute a fresh tensor on every read are not state
                for pn in fresh_properties:
                    tv = si.fresh("local")
                    si.state_sids[pn] = tv.sid
            resolver = _ResolveIfExp(assignment)
            for s in p.steps:
                node = s.node
                if s.kind == "assume" or s.kind == "loop":
                    si.ev_any(node)
                    continue
                if s.kind not in ("stmt",):
                    continue
                st = resolver.visit(copy.deepcopy(node)) if any(isinstance(x, ast.IfExp) for x in ast.walk(node)) else node
                ast.fix_missing_locations(st)
                if isinstance(st, ast.Assign):
                    v = st.value
                    vc = chain(v)
                    if vc == "%s.saved_tensors" % ctx or (isinstance(v, ast.Subscript) and chain(v.value) == "%s.saved_tensors" % ctx):
                        for t in st.targets:
                            for e in (t.elts if isinstance(t, ast.Tuple) else [t]):
                                if isinstance(e, ast.Name):
                                    si.env[e.id] = si.fresh("saved")
                        continue
                    if isinstance(v, ast.Tuple) and isinstance(st.targets[0], ast.Tuple) and len(v.elts) == len(st.targets[0].elts):
                        vals_ = [si.ev(x) for x in v.elts]
                        for t, val in zip(st.targets[0].elts, vals_):
                            si.assign(t, val, st)
                        continue
                    val = si.ev(v)
                    for t in st.targets:
                        if isinstance(t, ast.Attribute) and chain(t.value) == ctx:
                            if val is not None:
                                si.finalised.append(("stored on ctx", src(t), val))
                        else:
                            si.assign(t, val, st)
                elif isinstance(st, ast.AugAssign):
                    si.ev(st.value)
                    if isinstance(st.target, ast.Name):
                        cur = si.read_name(st.target.id, st.target)
                        if cur is not None:
                            si.env[st.target.id] = si.mutate(cur, st.target.id, st)
                    elif isinstance(st.target, ast.Subscript):
                        si.assign(st.target, None, st)
                elif isinstance(st, ast.Expr):
                    c = st.value
                    if isinstance(c, ast.Call) and chain(c.func) == "%s.save_for_backward" % ctx:
                        for a in c.args:
                            val = si.ev(a)
                            if val is not None:
                                si.finalised.append(("saved for backward", src(a), val))
                    else:
                        si.ev(c)
                elif isinstance(st, ast.Return):
                    if st.value is not None:
                        elts = st.value.elts if isinstance(st.value, ast.Tuple) else [st.value]
                        for e in elts:
                            val = si.ev(e)
                            if val is not None:
                                si.finalised.append(("returned", src(e), val))
                elif isinstance(st, (ast.Pass, ast.Raise)):
                    pass
                else:
                    si.ev_any(st)
            for role_, text, val in si.finalised:
                if val.ver < si.latest[val.sid]:
                    si.problems.append("the value %s as `%s` shares its storage with a later in-place update through `%s`: its content is overwritten" % (role_, text, si.last_writer.get(val.sid, "?")))
                if role == "backward" and role_ == "returned" and si.prov.get(val.sid) == "saved" and False:
                    pass
            cond = ", ".join("%s=%s" % kv for kv in assignment.items())
            for pr in si.problems:
                all_problems.append(pr + (" [path with %s]" % cond if cond else ""))
    return sorted(set(all_problems)), npaths


def storage(idx: ProgramIndex, cls: ClassInfo, rep: Report, helpers: Dict[str, Set[int]]):
    inst = "%s:%s" % (cls.module.name, cls.qualname)
    fwd = idx.method(cls, "forward", own=True)
    bwd = idx.method(cls, "backward", own=True)
    callables = {fwd.params[1 + i] for i in NON_TENSOR_INPUTS.get(cls.name, {}) if "callable" in NON_TENSOR_INPUTS[cls.name][i]}
    scalars = {fwd.params[1 + i] for i in NON_TENSOR_INPUTS.get(cls.name, {}) if "callable" not in NON_TENSOR_INPUTS[cls.name][i]}
    for fi, role in ((fwd, "forward"), (bwd, "backward")):
        # in backward, tensors kept on ctx (saved tensors and plain attributes) outlive the call: a graph may be differentiated
        # more than once (retain_graph, jacobian, two losses), so they are object-owned state that must not be written in place
        probs, npaths = interp_function(fi, role, callables | scalars, helpers, track_state=(role == "backward"))
        probs = [p_.replace("a tensor owned by the object (a parameter, buffer, cache or training data): later calls see the modified value",
                            "a tensor kept on ctx: a second backward pass through the same graph (retain_graph, jacobian, two losses) sees the modified value") for p_ in probs]
        rep.add("C19-2", "%s.%s" % (inst, role), fi.where, not probs and npaths > 0,
                "on all %d path(s): finalised values hold the latest version of their storage, no stale reads, no write to inputs%s" % (npaths, " or saved tensors" if role == "backward" else "") if not probs else "; ".join(probs[:3]),
                {"paths": npaths})
    # helpers of the class (static _forward/_backward) are interpreted as well
    for name, m in cls.methods.items():
        if name in ("forward", "backward") or m.kind != "staticmethod":
            continue
        fake = FuncInfo(m.module, m.cls, m.name, m.node, m.decorators, m.kind)
        # static helpers have no ctx: prepend a dummy
        params = m.params
        si_probs, npaths = _interp_helper(m, helpers)
        rep.add("C19-2", "%s.%s" % (inst, name), m.where, not si_probs and npaths > 0, "helper: no stale reads, arguments not written, on %d path(s)" % npaths if not si_probs else "; ".join(si_probs[:3]), {"paths": npaths})


def _interp_helper(m: FuncInfo, helpers: Dict[str, Set[int]]) -> Tuple[List[str], int]:
    node = copy.deepcopy(m.node)
    node.args.args.insert(0, ast.arg(arg="__ctx__"))
    fi = FuncInfo(m.module, m.cls, m.name, node, m.decorators, m.kind)
    return interp_function(fi, "helper", set(), helpers)


# ---- C19-3 ---------------------------------------------------------------------------------------------------------
def none_refused(idx: ProgramIndex, cls: ClassInfo, rep: Report):
    fwd = idx.method(cls, "forward", own=True)
    bwd = idx.method(cls, "backward", own=True)
    n_in = len(fwd.params) - 1
    rets = _return_tuples(cls, bwd)
    if not rets:
        return
    always_none = [i for i in range(n_in) if all(i < len(e) and isinstance(e[i], ast.Constant) and e[i].value is None for e in rets)]
    exempt = NON_TENSOR_INPUTS.get(cls.name, {})
    need = [i for i in always_none if i not in exempt]
    if not always_none:
        return
    ctx = fwd.params[0]
    refused: Set[int] = set()
    for n in ast.walk(fwd.node):
        if isinstance(n, ast.If) and any(isinstance(s, ast.Raise) for s in n.body):
            for sub in ast.walk(n.test):
                if isinstance(sub, ast.Subscript) and chain(sub.value) == "%s.needs_input_grad" % ctx:
                    sl = sub.slice
                    if isinstance(sl, ast.Constant):
                        refused.add(sl.value)
                    elif isinstance(sl, ast.Slice) and sl.lower is None and isinstance(sl.upper, ast.Constant):
                        refused |= set(range(sl.upper.value))
                    elif isinstance(sl, ast.Slice) and sl.lower is None and sl.upper is None:
                        refused |= set(range(n_in))
    # the refusal must dominate: it is a top-level statement of forward
    missing = [i for i in need if i not in refused]
    rep.add("C19-3", "%s:%s" % (cls.module.name, cls.qualname), fwd.where, not missing,
            "inputs %s get a None gradient and forward raises when they need one (non-tensor inputs %s exempt by table)" % ([fwd.params[1 + i] for i in need], [fwd.params[1 + i] for i in always_none if i in exempt]) if not missing else
            "backward returns None for input(s) %s but forward does not refuse needs_input_grad for them: the gradient is silently dropped" % [fwd.params[1 + i] for i in missing], {"none_positions": always_none})


# ---- C19-4 ---------------------------------------------------------------------------------------------------------
def _disjuncts(test: ast.AST) -> List[str]:
    if isinstance(test, ast.BoolOp) and isinstance(test.op, ast.Or):
        out = []
        for v in test.values:
            out += _disjuncts(v)
        return out
    return [norm(test)]


def dispatch(idx: ProgramIndex, rep: Report, fs: List[ClassInfo]):
    # apply arity at every site
    by_name = {c.name: c for c in fs}
    napply = 0
    for fi in idx.all_functions():
        for c in calls_in(fi.node):
            if isinstance(c.func, ast.Attribute) and c.func.attr == "apply" and isinstance(c.func.value, ast.Name) and c.func.value.id in by_name:
                napply += 1
                F = by_name[c.func.value.id]
                n_in = len(idx.method(F, "forward", own=True).params) - 1
                ok = len(c.args) == n_in and not c.keywords
                rep.add("C19-4", "%s:%s -> %s.apply" % (fi.module.name, fi.qualname, F.name), "%s:%d" % (fi.module.relpath, c.lineno), ok, "%d positional arguments for %d forward inputs" % (len(c.args), n_in) if ok else "apply is called with %d positional argument(s)%s for %d forward inputs" % (len(c.args), " and keywords" if c.keywords else "", n_in), {})
    rep.floor("C19-4", "Function.apply sites", napply, 6)
    attached_inputs(idx, rep, by_name)
    guards = {}
    for kname, fname in (("RBFKernel", "RBFCovariance"), ("MaternKernel", "MaternCovariance")):
        K = idx.cls("gpytorch.kernels.%s" % ("rbf_kernel" if kname == "RBFKernel" else "matern_kernel"), kname)
        fw = idx.method(K, "forward", own=True)
        # the `if` whose body returns before the apply call
        guard = None
        for st in body_without_docstring(fw.node):
            if isinstance(st, ast.If) and any(isinstance(r, ast.Return) for r in ast.walk(st)) and not any(isinstance(c, ast.Call) and isinstance(c.func, ast.Attribute) and c.func.attr == "apply" for c in ast.walk(st)):
                guard = st
        inst = "%s:%s.forward[dispatch to %s]" % (K.module.name, kname, fname)
        if guard is None:
            rep.add("C19-4", inst, fw.where, False, "no guard selects the generic autograd path before %s.apply" % fname, {})
            continue
        ds = _disjuncts(guard.test)
        guards[kname] = set(ds)
        apply_call = [c for c in calls_in(fw.node) if isinstance(c.func, ast.Attribute) and c.func.attr == "apply"][0]
        a0, a1 = src(apply_call.args[0]), src(apply_call.args[1])
        need = {
            "%s.requires_grad" % a0: "the Function raises when x1 needs a gradient",
            "%s.requires_grad" % a1: "the Function raises when x2 needs a gradient",
            "self.ard_num_dims is not None and self.ard_num_dims > 1": "the Function raises for several lengthscales",
            "diag": "the Function computes the full matrix only",
        }
        probs = ["%s (missing disjunct `%s`)" % (why, d) for d, why in need.items() if d not in ds]
        if not any("last_dim_is_batch" in d for d in ds):
            probs.append("the Function does not implement last_dim_is_batch (missing disjunct)")
        rep.add("C19-4", inst, fw.where, not probs, "generic path is taken for %s" % ds if not probs else "; ".join(probs), {"disjuncts": ds})
    if len(guards) == 2:
        a, b = guards["RBFKernel"], guards["MaternKernel"]
        rep.add("C19-4", "gpytorch.kernels:RBFKernel/MaternKernel[sibling guards]", "gpytorch/kernels/", a == b, "both kernels dispatch on the same disjunct set" if a == b else "RBFKernel and MaternKernel dispatch on different conditions: %s" % sorted(a ^ b), {})


# ---- C19-6 ---------------------------------------------------------------------------------------------------------
def attached_inputs(idx: ProgramIndex, rep: Report, by_name: Dict[str, ClassInfo]):
    """The hand-written backward delivers a gradient for every tensor input of the Function.  It reaches the user's
    hyperparameter only if the value handed to `apply` is still attached to it: on every path the argument (inlined) must not pass
    through .detach() / .data / .item() / a no_grad block, and the choice must not depend on self.training - otherwise the fast
    path silently returns no (or another) hyperparameter gradient where the generic path returns the true one."""
    from ..symbolic import inline, walk_paths
    rep.rule("C19-6", "tensor arguments handed to a custom Function stay attached to the hyperparameters they come from (no detach / .data / no_grad / training-mode switch on the way)")
    n = 0
    for fi in idx.all_functions():
        if not any(isinstance(c.func, ast.Attribute) and c.func.attr == "apply" and isinstance(c.func.value, ast.Name) and c.func.value.id in by_name for c in calls_in(fi.node)):
            continue
        sn = fi.params[0] if fi.params else "self"
        sites: Dict[int, List[str]] = {}
        for path, seq in walk_paths(fi):
            mode_dep = [s_ for s_ in path.steps if s_.kind == "assume" and any(isinstance(x, ast.Attribute) and x.attr == "training" and chain(x.value) == sn for x in ast.walk(s_.node))]
            no_grad_depth = 0
            for s_ in path.steps:
                pass
            for st, env in seq:
                if not isinstance(st, ast.stmt):
                    continue
                for c in (x for x in ast.walk(st) if isinstance(x, ast.Call)):
                    if not (isinstance(c.func, ast.Attribute) and c.func.attr == "apply" and isinstance(c.func.value, ast.Name) and c.func.value.id in by_name):
                        continue
                    probs = sites.setdefault(c.lineno, [])
                    for a in c.args:
                        v = inline(a, env)
                        from_param = any(isinstance(x, ast.Attribute) and chain(x.value) == sn for x in ast.walk(v))
                        if not from_param or isinstance(v, ast.Lambda):
                            continue
                        for x in ast.walk(v):
                            if isinstance(x, ast.Call) and isinstance(x.func, ast.Attribute) and x.func.attr in ("detach", "detach_", "item", "tolist", "numpy"):
                                probs.append("argument `%s` is `%s`: detached from the hyperparameter%s" % (" ".join(src(a).split())[:30], " ".join(src(v).split())[:50], (" when " + " ".join(src(mode_dep[0].node).split())[:30] + " is %s" % mode_dep[0].truth) if mode_dep else ""))
                            if isinstance(x, ast.Attribute) and x.attr == "data":
                                probs.append("argument `%s` reads `.data`: detached from the hyperparameter" % " ".join(src(a).split())[:30])
        # lexical no_grad around an apply
        for w in ast.walk(fi.node):
            if isinstance(w, (ast.With, ast.AsyncWith)) and any(isinstance(it.context_expr, ast.Call) and chain(it.context_expr.func) in ("torch.no_grad",) for it in w.items):
                for c in (x for b in w.body for x in ast.walk(b) if isinstance(x, ast.Call)):
                    if isinstance(c.func, ast.Attribute) and c.func.attr == "apply" and isinstance(c.func.value, ast.Name) and c.func.value.id in by_name:
                        sites.setdefault(c.lineno, []).append("the Function is applied under torch.no_grad()")
        for line, probs in sorted(sites.items()):
            n += 1
            rep.add("C19-6", "%s:%s[apply @%d]" % (fi.module.name, fi.qualname, sorted(sites).index(line) + 1), "%s:%d" % (fi.module.relpath, line), not probs,
                    "every tensor argument is the attached hyperparameter (or data) on all paths" if not probs else "; ".join(sorted(set(probs))[:2]), {})
    rep.floor("C19-6", "Function.apply sites checked for attachment", n, 5)


# ---- C19-5 ---------------------------------------------------------------------------------------------------------
def _negative_int(e: ast.AST) -> Optional[bool]:
    if isinstance(e, ast.UnaryOp) and isinstance(e.op, ast.USub) and isinstance(e.operand, ast.Constant) and isinstance(e.operand.value, int):
        return True
    if isinstance(e, ast.Constant) and isinstance(e.value, int):
        return e.value < 0
    return None


def axis_addressing(idx: ProgramIndex, rep: Report, fs: List[ClassInfo], rule: str = "C19-5", floor: int = 10):
    """In the modules that define autograd Functions every tensor method that addresses matrix axes must name them from the
    right: `.diagonal()` defaults to dims (0, 1), `.t()` is 2-D only, `transpose(0, 1)` / positive reduction dims hit batch axes."""
    from .c08 import _neg_dim, REDUCTIONS

    funcs: List[FuncInfo] = []
    for c in fs:
        funcs += list(c.methods.values())
        mi = c.module
        for f in mi.functions.values():
            if f not in funcs:
                funcs.append(f)
    n = 0
    seen = set()
    for f in funcs:
        if id(f.node) in seen:
            continue
        seen.add(id(f.node))
        for c in ast.walk(f.node):
            if not (isinstance(c, ast.Call) and isinstance(c.func, ast.Attribute)):
                continue
            m = c.func.attr
            base = chain(c.func.value)
            inst = "%s:%s:%s" % (f.module.name, f.qualname, norm(c)[:70])
            where = "%s:%d" % (f.module.relpath, c.lineno)
            if m == "diagonal" and base not in ("torch",):
                n += 1
                kw = {k.arg: k.value for k in c.keywords}
                d1 = kw.get("dim1", c.args[1] if len(c.args) > 1 else None)
                d2 = kw.get("dim2", c.args[2] if len(c.args) > 2 else None)
                ok = d1 is not None and d2 is not None and _negative_int(d1) is True and _negative_int(d2) is True
                rep.add(rule, inst, where, ok, "diagonal over dims (%s, %s)" % (src(d1), src(d2)) if ok else
                        "`%s` takes the diagonal over the default dims (0, 1) (or non-negative dims): for a batched matrix these are batch axes, so the hand-written gradient is wrong for batch shapes" % norm(c)[:60], {})
            elif m == "transpose" and len(c.args) == 2:
                n += 1
                a, b = _negative_int(c.args[0]), _negative_int(c.args[1])
                ok = a is True and b is True
                if a is None or b is None:
                    rep.observe(rule, inst, where, "transpose with non-literal dims")
                else:
                    rep.add(rule, inst, where, ok, "transposes the last two axes" if ok else "`%s` addresses axes from the left: batch axes are transposed" % norm(c)[:60], {})
            elif m == "t" and not c.args:
                n += 1
                recv = c.func.value
                two_d = isinstance(recv, ast.Call) and isinstance(recv.func, ast.Attribute) and recv.func.attr in ("view", "reshape") and len(recv.args) == 2
                rep.add(rule, inst, where, two_d, ".t() of an explicitly 2-D view" if two_d else "`.t()` is defined for <= 2-D tensors only: a batched operand raises or transposes the wrong axes", {})
            elif m in REDUCTIONS and base not in ("torch", "math"):
                dim = None
                for k in c.keywords:
                    if k.arg in ("dim", "axis"):
                        dim = k.value
                if dim is None and c.args and m != "norm":
                    dim = c.args[0]
                if dim is None:
                    continue  # full reductions / boolean tests are outside this rule (C08-2 handles kernels)
                v = _neg_dim(dim, f.node)
                n += 1
                if v is None:
                    rep.observe(rule, inst, where, "reduction dim `%s` is not a literal" % src(dim))
                else:
                    rep.add(rule, inst, where, v, "reduces over dim %s" % src(dim) if v else "`%s` reduces over a non-negative dim (a batch axis when the input is batched)" % norm(c)[:60], {})
    rep.floor(rule, "axis-addressing calls in Function modules", n, floor)


# ---- C19-7 ---------------------------------------------------------------------------------------------------------
# operations whose backward pass reads their own *output* (torch/csrc/autograd/derivatives.yaml: result used in the formula)
OUTPUT_SAVING = {"solve", "exp", "sqrt", "rsqrt", "sigmoid", "tanh", "softmax", "log_softmax", "cholesky", "cholesky_solve", "reciprocal", "erf",
                 "inv_matmul", "triangular_solve", "solve_triangular", "expm1", "tan", "cumprod", "prod", "logsumexp", "inverse", "pinverse", "matrix_exp"}
ALIAS_VIEWS = {"squeeze", "unsqueeze", "view", "reshape", "transpose", "permute", "mT", "T", "expand", "contiguous", "flatten", "movedim", "select", "narrow", "view_as", "diagonal"}
FRESH = {"clone", "detach", "to_dense", "double", "float", "masked_fill", "where", "mul", "add", "sub", "div", "matmul"}


def saved_outputs_intact(idx: ProgramIndex, rep: Report):
    """torch keeps the *output* of some operations for their backward pass (solve, exp, sqrt, sigmoid, cholesky, ...).  Writing into such
    an output in place (`out[mask] = v`, `out.op_()`, `out += v`) - directly or through a view - makes every later backward through it
    raise ('one of the variables needed for gradient computation has been modified by an inplace operation').  Flow-sensitive over each
    function body: a local bound to the result of an output-saving operation (possibly through views) must not be written in place
    before it is rebound to a fresh tensor (clone / detach / an out-of-place operation)."""
    rep.rule("C19-7", "results that autograd keeps for the backward pass (solve, exp, sqrt, cholesky, ...) are not written in place: gradients through the value stay available")
    from ..symbolic import walk_paths
    n = 0
    sites = 0
    for fi in sorted(idx.all_functions(), key=lambda f: (f.module.name, f.qualname)):
        if not any(isinstance(x, ast.Subscript) and isinstance(x.ctx, ast.Store) for x in ast.walk(fi.node)) and \
           not any(isinstance(c.func, ast.Attribute) and c.func.attr.endswith("_") and not c.func.attr.startswith("_") for c in calls_in(fi.node)) and \
           not any(isinstance(x, ast.AugAssign) for x in ast.walk(fi.node)):
            continue
        own_saving = any(isinstance(c.func, ast.Attribute) and c.func.attr in OUTPUT_SAVING or (chain(c.func) or "").split(".")[-1] in OUTPUT_SAVING for c in calls_in(fi.node))
        via_property = fi.cls is not None and any(isinstance(c.func, ast.Attribute) and c.func.attr.endswith("_") and not c.func.attr.startswith("_") and isinstance(c.func.value, ast.Attribute)
                                                   and isinstance(c.func.value.value, ast.Name) and c.func.value.value.id == (fi.params[0] if fi.params else "self") for c in calls_in(fi.node))
        if not own_saving and not via_property:
            continue
        n += 1
        probs = set()

        def origin(e, saved, depth=0):
            """name of the output-saving op whose result e aliases, or None"""
            while True:
                if isinstance(e, ast.Name):
                    return saved.get(e.id)
                if isinstance(e, ast.Attribute) and isinstance(e.value, ast.Name) and e.value.id == (fi.params[0] if fi.params else "self") and fi.cls is not None and depth < 3:
                    # a property of self that returns a fresh result of an output-saving operation (stddev = variance.sqrt())
                    pm = fi.cls.lookup(e.attr)
                    if pm is not None and pm.kind == "property":
                        rets = [r.value for r in ast.walk(pm.node) if isinstance(r, ast.Return) and r.value is not None]
                        if len(rets) == 1:
                            return origin(rets[0], {}, depth + 1)
                    if e.attr in ALIAS_VIEWS:
                        e = e.value
                        continue
                    return None
                if isinstance(e, ast.Attribute) and e.attr in ALIAS_VIEWS:
                    e = e.value
                    continue
                if isinstance(e, ast.Subscript):
                    e = e.value
                    continue
                if isinstance(e, ast.Call):
                    fn = e.func
                    if isinstance(fn, ast.Attribute) and fn.attr in ALIAS_VIEWS:
                        e = fn.value
                        continue
                    short = fn.attr if isinstance(fn, ast.Attribute) else (chain(fn) or "").split(".")[-1]
                    if short in OUTPUT_SAVING and (chain(fn) or "").split(".")[0] not in ("math", "np", "numpy"):
                        return short
                    return None
                return None

        for path, seq in walk_paths(fi, limit=3000):
            saved: Dict[str, str] = {}
            for st, _env in seq:
                if not isinstance(st, ast.stmt):
                    continue
                saved_before = dict(saved)
                if isinstance(st, ast.Assign):
                    # in-place through subscript store
                    for t in st.targets:
                        if isinstance(t, ast.Subscript):
                            o = origin(t.value, saved)
                            if o:
                                sites += 1
                                probs.add("`%s` (line %d) writes into the result of %s(), which autograd keeps for the backward pass" % (" ".join(src(st).split())[:60], st.lineno, o))
                    for t in st.targets:
                        if isinstance(t, ast.Name):
                            o = origin(st.value, saved)
                            if o:
                                saved[t.id] = o
                            else:
                                saved.pop(t.id, None)
                elif isinstance(st, ast.AugAssign):
                    o = origin(st.target, saved) if isinstance(st.target, (ast.Name, ast.Subscript)) else None
                    if o:
                        probs.add("`%s` (line %d) updates the result of %s() in place" % (" ".join(src(st).split())[:60], st.lineno, o))
                # in-place methods anywhere in the statement (`x.clamp_(..)` as a statement, `y = x.mul_(2)` as a value)
                if isinstance(st, (ast.Expr, ast.Assign, ast.Return, ast.AugAssign)):
                    for c_ in (x for x in ast.walk(st) if isinstance(x, ast.Call) and isinstance(x.func, ast.Attribute)):
                        m = c_.func.attr
                        if m.endswith("_") and not m.startswith("_") and m not in ("requires_grad_", "register_hook_"):
                            # a value that only initialises storage (`p.data.copy_(v.add_(noise))`) never takes part in a backward pass
                            into_data = any(isinstance(x, ast.Call) and isinstance(x.func, ast.Attribute) and x.func.attr == "copy_" and ".data" in (src(x.func.value) or "") and any(y is c_ for a_ in x.args for y in ast.walk(a_))
                                            for x in ast.walk(st))
                            if into_data:
                                continue
                            o = origin(c_.func.value, saved_before if isinstance(st, ast.Assign) else saved)
                            if o:
                                probs.add("`%s` (line %d) updates the result of %s() in place" % (" ".join(src(c_).split())[:60], st.lineno, o))
        rep.add("C19-7", "%s:%s" % (fi.module.name, fi.qualname), fi.where, not probs,
                "no in-place write reaches a result that autograd saved" if not probs else "; ".join(sorted(probs)) + ": a backward pass through this value raises (gradients of predictions / objectives through it are lost)", {})
    rep.floor("C19-7", "functions combining output-saving operations with in-place writes", n, 3)


# ---- C19-8 ---------------------------------------------------------------------------------------------------------
CONSTANT_MAKERS = {"torch.zeros", "torch.zeros_like", "torch.ones", "torch.ones_like", "torch.full", "torch.full_like", "torch.empty", "torch.empty_like", "torch.tensor"}


def outputs_are_computed(idx: ProgramIndex, rep: Report, fs):
    """'The gradient delivered to the user equals the derivative of the function actually computed in the forward pass': an output of
    forward that is a constant (zeros_like(...), a literal) has derivative zero, so a backward that *uses* the incoming gradient of that
    output delivers the gradient of some other function than the one whose value the user received."""
    rep.rule("C19-8", "every output of forward whose incoming gradient backward uses is computed from the inputs (not a constant placeholder)")
    from ..symbolic import inline, walk_paths
    n = 0
    for cls in fs:
        fwd, bwd = cls.methods.get("forward"), cls.methods.get("backward")
        if fwd is None or bwd is None:
            continue
        gparams = bwd.params[1:]  # after ctx
        used = {x.id for x in ast.walk(bwd.node) if isinstance(x, ast.Name) and isinstance(x.ctx, ast.Load)}
        probs = set()
        nouts = 0
        for path, seq in walk_paths(fwd):
            if path.outcome != "return" or path.end is None or getattr(path.end, "value", None) is None:
                continue
            env = {}
            for st, e_ in seq:
                if st is path.end:
                    env = e_
            rv = path.end.value
            outs = list(rv.elts) if isinstance(rv, ast.Tuple) else [rv]
            nouts = max(nouts, len(outs))
            for k, o in enumerate(outs):
                v = inline(o, env)
                const = (isinstance(v, ast.Call) and (chain(v.func) or "") in CONSTANT_MAKERS) or isinstance(v, ast.Constant)
                if const and isinstance(o, ast.Name):
                    # a buffer that is filled in place afterwards (out[mask] = ..., out.masked_scatter_(...)) is computed, not constant
                    filled = any((isinstance(x, ast.Subscript) and isinstance(x.ctx, ast.Store) and isinstance(x.value, ast.Name) and x.value.id == o.id) or
                                 (isinstance(x, ast.Call) and isinstance(x.func, ast.Attribute) and x.func.attr.endswith("_") and isinstance(x.func.value, ast.Name) and x.func.value.id == o.id) or
                                 (isinstance(x, ast.AugAssign) and isinstance(x.target, ast.Name) and x.target.id == o.id)
                                 for x in ast.walk(fwd.node))
                    const = not filled
                if const and k < len(gparams) and gparams[k] in used:
                    probs.add("output %d of forward is the constant `%s` but backward uses its incoming gradient `%s`: the value handed to the user is not the function whose gradient is delivered" % (k, " ".join(src(v).split())[:50], gparams[k]))
                elif const and k < len(gparams):
                    rep.observe("C19-8", "%s:%s[output %d]" % (cls.module.name, cls.qualname, k), fwd.where,
                                "output %d is the constant `%s`; backward ignores its incoming gradient (consistent: derivative of a constant), but the *value* is a placeholder - callers that report it (a KL of exactly 0) report a placeholder" % (k, " ".join(src(v).split())[:50]))
        n += 1
        rep.add("C19-8", "%s:%s" % (cls.module.name, cls.qualname), fwd.where, not probs,
                "%d output(s), each computed from the inputs or ignored by backward" % nouts if not probs else "; ".join(sorted(probs)), {})
    rep.floor("C19-8", "autograd Functions", n, 6)


# ---- C19-9 ---------------------------------------------------------------------------------------------------------
def once_differentiable_backward(idx: ProgramIndex, rep: Report, fs):
    """Inside Function.forward autograd is off: whatever forward computes and hands to backward through save_for_backward / ctx attributes
    - other than the Function's own inputs and outputs, which torch re-attaches to the graph - is a constant as far as a *second*
    differentiation is concerned.  A backward that multiplies the incoming gradient by such a graph-free intermediate therefore
    differentiates to garbage (the d/d theta of the intermediate is dropped; the Hessian of an exact-GP NLL comes out with the wrong
    sign) without any error.  The remedy torch provides is `@once_differentiable`: a second backward raises instead.  Rule: a Function
    whose backward consumes graph-free intermediates marks its backward once-differentiable."""
    rep.rule("C19-9", "a hand-written backward that consumes graph-free intermediates of forward (saved values that are neither inputs nor outputs; ctx attributes) is marked @once_differentiable: second-order derivatives raise instead of being silently wrong")
    n = 0
    for cls in fs:
        fwd, bwd = cls.methods.get("forward"), cls.methods.get("backward")
        if fwd is None or bwd is None:
            continue
        n += 1
        inputs = set(fwd.params[1:])
        outs = set()
        for r in (x for x in ast.walk(fwd.node) if isinstance(x, ast.Return) and x.value is not None):
            for e in (r.value.elts if isinstance(r.value, ast.Tuple) else [r.value]):
                if isinstance(e, ast.Name):
                    outs.add(e.id)
        inter = set()
        for c in calls_in(fwd.node):
            if isinstance(c.func, ast.Attribute) and c.func.attr == "save_for_backward":
                for a in c.args:
                    if isinstance(a, ast.Name) and a.id not in inputs and a.id not in outs:
                        inter.add(a.id)
                    elif not isinstance(a, ast.Name):
                        inter.add(" ".join(src(a).split())[:30])
        ctxn = fwd.params[0]
        for a in ast.walk(fwd.node):
            if isinstance(a, ast.Assign):
                for t in a.targets:
                    if isinstance(t, ast.Attribute) and isinstance(t.value, ast.Name) and t.value.id == ctxn and not isinstance(a.value, ast.Constant):
                        # flags / python scalars are harmless; tensors computed in forward are intermediates
                        if not (isinstance(a.value, ast.Call) and (chain(a.value.func) or "") in ("any", "all", "bool", "int", "float", "len")) and not isinstance(a.value, (ast.Compare, ast.BoolOp)):
                            inter.add("ctx." + t.attr)
        decorated = any("once_differentiable" in src(d) for d in bwd.node.decorator_list)
        ok = decorated or not inter
        rep.add("C19-9", "%s:%s.backward" % (cls.module.name, cls.qualname), bwd.where, ok,
                ("marked @once_differentiable" if decorated else "backward consumes only inputs / outputs of forward (re-attached by torch)") if ok else
                "backward consumes the graph-free intermediate(s) %s of forward but is not marked @once_differentiable: a second differentiation (Hessians, gradient penalties) silently treats them as constants" % ", ".join(sorted(inter)), {"intermediates": sorted(inter)})
    rep.floor("C19-9", "autograd Functions", n, 6)
