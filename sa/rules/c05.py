"""C05 - kernels: the *composition* clause only.

"sums, products and scalings of kernels evaluate to the sums, products and scalings of their parts":
C05-1  AdditiveKernel.forward is +1 * every member kernel evaluated (through __call__) on the same (x1, x2, diag, **params);
       ProductKernel.forward multiplies exactly those terms; Kernel.__add__/__mul__ build the composite from both operands in order
C05-2  ScaleKernel.forward is the base kernel's value times the constrained outputscale, and nothing else
C05-3  LCMKernel.forward is the sum over all member multitask kernels
The covariance formulae of the individual kernels are real-valued functions and are NOT decided.  (DESIGN.md section 9.7.)
"""
from __future__ import annotations

import ast
from typing import List, Optional

from ..cfg import enumerate_paths, RETURN
from ..index import (AnalysisError, ClassInfo, FuncInfo, ProgramIndex, body_without_docstring, calls_in, chain, norm, src)
from ..report import Report

TRANSPARENT_CALLS = {"to_linear_operator", "to_dense"}


def _strip(e: ast.AST) -> ast.AST:
    while isinstance(e, ast.Call) and (chain(e.func) or "").split(".")[-1] in TRANSPARENT_CALLS and e.args:
        e = e.args[0]
    return e


def _member_call_ok(call: ast.AST, member_names, fi: FuncInfo) -> List[str]:
    """`kern(x1, x2, diag=diag, **params)` on a member kernel, through __call__"""
    probs = []
    call = _strip(call)
    if not isinstance(call, ast.Call):
        return ["term `%s` is not a call of a member kernel" % src(call)[:40]]
    f = call.func
    if isinstance(f, ast.Attribute) and f.attr == "forward":
        probs.append("member kernel is evaluated through .forward (bypassing active_dims), not through __call__")
        f = f.value
    base = f
    while isinstance(base, ast.Subscript):
        base = base.value
    if not ((isinstance(base, ast.Name) and base.id in member_names) or chain(base) in member_names):
        probs.append("`%s` is not a member kernel" % src(f))
    x1, x2 = fi.params[1], fi.params[2]
    pos = [src(a) for a in call.args]
    if pos[:2] != [x1, x2]:
        probs.append("member kernel is evaluated on (%s), expected (%s, %s)" % (", ".join(pos[:2]), x1, x2))
    kw = {k.arg: src(k.value) for k in call.keywords}
    if "diag" in fi.params and kw.get("diag") != "diag":
        probs.append("diag is not forwarded to the member kernel")
    if fi.node.args.kwarg and None not in kw:
        probs.append("**%s is not forwarded to the member kernel" % fi.node.args.kwarg.arg)
    return probs


def fold_form(fi: FuncInfo, members: str, op, opname: str, allow_forward: bool):
    """Is the value returned on every path the `op`-fold of member(x1, x2, ...) over all of self.<members>?  Decided on the
    inlined return expression of each path (loops taken 0 or 1 times): a tree of `op` nodes whose leaves are the neutral element
    or a member term; on the path that takes every loop the leaves must cover the whole list (loop over all, or first + rest).
    -> (problems, number of member terms seen)"""
    from ..symbolic import inline, walk_paths
    probs: List[str] = []
    nterms = 0
    sn = fi.params[0]
    lst = "%s.%s" % (sn, members)

    def leaves(e):
        e = _strip(e)
        if isinstance(e, ast.IfExp):
            # `ZeroLinearOperator() if not diag else 0`: both alternatives must be leaves of the same kind
            return leaves(e.body) + leaves(e.orelse)
        if isinstance(e, ast.BinOp):
            if isinstance(e.op, op):
                return leaves(e.left) + leaves(e.right)
            probs.append("members are combined with `%s`, not with %s" % (src(e)[:50], opname))
            return []
        if isinstance(e, ast.Call) and isinstance(e.func, ast.Attribute) and e.func.attr in ({"add", "add_", "__add__"} if op is ast.Add else {"mul", "mul_", "__mul__"}) and len(e.args) == 1:
            return leaves(e.func.value) + leaves(e.args[0])
        return [e]

    def member_kind(f) -> Optional[str]:
        """which members does callee expression f denote: 'all' | 'rest' | 'first'"""
        if isinstance(f, ast.Call) and isinstance(f.func, ast.Name) and f.func.id == "__iter_item__" and f.args:
            it = f.args[0]
            if chain(it) == lst:
                return "all"
            if isinstance(it, ast.Subscript) and chain(it.value) == lst and isinstance(it.slice, ast.Slice) and isinstance(it.slice.lower, ast.Constant) and it.slice.lower.value == 1 and it.slice.upper is None and it.slice.step is None:
                return "rest"
            return None
        if isinstance(f, ast.Subscript) and chain(f.value) == lst and isinstance(f.slice, ast.Constant) and f.slice.value == 0:
            return "first"
        return None

    for path, seq in walk_paths(fi):
        took_all = all(s_.truth for s_ in path.steps if s_.kind == "loop")
        for st, env in seq:
            if not (isinstance(st, ast.Return) and st.value is not None):
                continue
            r = inline(st.value, env)
            kinds = set()
            for lf in leaves(r):
                if isinstance(lf, ast.Constant) and lf.value in ((0,) if op is ast.Add else (1,)):
                    continue
                if isinstance(lf, ast.Call) and (chain(lf.func) or "").split(".")[-1] == "ZeroLinearOperator" and op is ast.Add:
                    continue
                if isinstance(lf, ast.Call):
                    f = lf.func
                    via_forward = False
                    if isinstance(f, ast.Attribute) and f.attr in ("forward", "__call__"):
                        via_forward = f.attr == "forward"
                        f = f.value
                    k = member_kind(f)
                    if k is not None:
                        nterms += 1
                        kinds.add(k)
                        if via_forward and not allow_forward:
                            probs.append("member kernel is evaluated through .forward (bypassing active_dims), not through __call__")
                        pos = [src(a) for a in lf.args]
                        if pos[:2] != [fi.params[1], fi.params[2]]:
                            probs.append("member kernel is evaluated on (%s), expected (%s, %s)" % (", ".join(pos[:2]), fi.params[1], fi.params[2]))
                        kw = {k_.arg: src(k_.value) for k_ in lf.keywords}
                        if "diag" in fi.params and kw.get("diag") != "diag":
                            probs.append("diag is not forwarded to the member kernel")
                        if fi.node.args.kwarg and None not in kw:
                            probs.append("**%s is not forwarded to the member kernel" % fi.node.args.kwarg.arg)
                        continue
                probs.append("term `%s` of the result is neither the neutral element nor a member kernel's value" % src(lf)[:50])
            if took_all and not ("all" in kinds or {"first", "rest"} <= kinds):
                probs.append("the members are not all covered (no loop over %s / first + loop over the rest): %s" % (lst, sorted(kinds) or "no member term"))
    return probs, nterms


def _isinstance_guards(fn: ast.AST, node: ast.AST, operand: str) -> set:
    """classes C such that `node` is evaluated only when isinstance(operand, C) holds (IfExp body / If body, conjunctions)"""
    out = set()

    def classes_of(test) -> set:
        cs = set()
        if isinstance(test, ast.BoolOp) and isinstance(test.op, ast.And):
            for v in test.values:
                cs |= classes_of(v)
        elif isinstance(test, ast.Call) and isinstance(test.func, ast.Name) and test.func.id == "isinstance" and len(test.args) == 2 \
                and isinstance(test.args[0], ast.Name) and test.args[0].id == operand:
            c = test.args[1]
            for e in (c.elts if isinstance(c, ast.Tuple) else [c]):
                cs.add(src(e).split(".")[-1])
            if isinstance(c, ast.Tuple) and len(c.elts) > 1:
                cs = {"|".join(sorted(cs))}  # a union test guarantees neither class
        return cs

    def contains(tree, target) -> bool:
        return any(x is target for x in ast.walk(tree))

    def rec(n):
        if isinstance(n, ast.IfExp) and contains(n.body, node):
            out.update(classes_of(n.test))
        if isinstance(n, ast.If) and any(contains(st, node) for st in n.body):
            out.update(classes_of(n.test))
        for ch in ast.iter_child_nodes(n):
            if contains(ch, node):
                rec(ch)

    rec(fn)
    return out


def run(idx: ProgramIndex, rep: Report, tier: str):
    rep.explanation = (
        "Only the composition clause of C05 is decided: the forward methods of AdditiveKernel, ProductKernel, ScaleKernel and LCMKernel "
        "are analysed path by path; every accumulation step must combine the running result with one member kernel evaluated through "
        "__call__ on the same inputs and keywords, with + (additive), * (product) and nothing else, and must cover all members "
        "(first member / loop over the rest, or loop over all). Kernel.__add__/__mul__ must pass both operands, in order. The "
        "covariance formulae of the individual kernels are equalities of real-valued functions and are not decidable from code shape.")
    rep.rule("C05-1", "Additive/Product kernels combine every member kernel, evaluated through __call__ on the same arguments, with + / *")
    rep.rule("C05-2", "ScaleKernel = base kernel value x constrained outputscale")
    rep.rule("C05-5", "k1 + k2 / k1 * k2 flatten an operand's members into the new composite only when the operand is a composite of the same kind")
    rep.rule("C05-4", "no in-place aliasing hazard in kernel forward code and the distance helpers (storage/version domain)")
    rep.rule("C05-3", "LCMKernel = sum over all member multitask kernels")
    piecewise_polynomial(idx, rep)
    from .c07 import wendland_exponent
    wendland_exponent(idx, rep, rule="C05-10")  # (the j of the closed form; shared with C07-9)
    derivative_chain(idx, rep)
    optional_parameters(idx, rep)
    K = "gpytorch.kernels.kernel"
    for cname, op, opname in (("AdditiveKernel", ast.Add, "+"), ("ProductKernel", ast.Mult, "*")):
        C = idx.cls(K, cname)
        fi = idx.method(C, "forward", own=True)
        probs, nterms = fold_form(fi, "kernels", op, opname, allow_forward=False)
        rep.add("C05-1", "%s:%s.forward" % (K, cname), fi.where, not probs and nterms >= 1, "on every returning path the result is the %s-fold of member(x1, x2, diag=diag, **params) over all members (%d member terms seen)" % (opname, nterms) if not probs else "; ".join(sorted(set(probs))[:4]), {})
    Kc = idx.cls(K, "Kernel")
    for meth, comp, attr in (("__add__", "AdditiveKernel", "AdditiveKernel"), ("__mul__", "ProductKernel", "ProductKernel")):
        fi = idx.method(Kc, meth, own=True)
        sn, on = fi.params[0], fi.params[1]
        rets = [r.value for r in ast.walk(fi.node) if isinstance(r, ast.Return) and r.value is not None]
        probs = []
        for r in rets:
            if isinstance(r, ast.Name):
                ds = [a_.value for a_ in ast.walk(fi.node) if isinstance(a_, ast.Assign) and len(a_.targets) == 1 and isinstance(a_.targets[0], ast.Name) and a_.targets[0].id == r.id]
                if len(ds) == 1:
                    r = ds[0]
            if not (isinstance(r, ast.Call) and src(r.func) == comp):
                probs.append("returns `%s`, not %s(...)" % (src(r)[:40], comp))
                continue
            # statements that feed the constructor arguments (def-use closure over locals), in source order
            names = {x.id for a in r.args for x in ast.walk(a) if isinstance(x, ast.Name)}
            feeding = [r]
            changed = True
            while changed:
                changed = False
                for st in ast.walk(fi.node):
                    tg = None
                    if isinstance(st, ast.Assign) and isinstance(st.targets[0], ast.Name):
                        tg = st.targets[0].id
                    elif isinstance(st, ast.AugAssign) and isinstance(st.target, ast.Name):
                        tg = st.target.id
                    elif isinstance(st, ast.Expr) and isinstance(st.value, ast.Call) and isinstance(st.value.func, ast.Attribute) and st.value.func.attr in ("append", "extend") and isinstance(st.value.func.value, ast.Name):
                        tg = st.value.func.value.id
                    if tg in names and st not in feeding:
                        feeding.append(st)
                        names |= {x.id for x in ast.walk(st) if isinstance(x, ast.Name)}
                        changed = True
            feeding.sort(key=lambda n: (n.lineno, n.col_offset))
            first_self = next((n.lineno * 1000 + min(x.col_offset for x in ast.walk(n) if isinstance(x, ast.Name) and x.id == sn) for n in feeding if any(isinstance(x, ast.Name) and x.id == sn for x in ast.walk(n))), None)
            first_other = next((n.lineno * 1000 + min(x.col_offset for x in ast.walk(n) if isinstance(x, ast.Name) and x.id == on) for n in feeding if any(isinstance(x, ast.Name) and x.id == on for x in ast.walk(n))), None)
            if first_self is None or first_other is None:
                probs.append("operand `%s` does not reach the composite kernel" % (sn if first_self is None else on))
            elif first_self > first_other:
                rep.observe("C05-1", "%s:Kernel.%s[order]" % (K, meth), fi.where, "operands are passed as (other, self): values equal by commutativity, order of kernels differs")
        rep.add("C05-1", "%s:Kernel.%s" % (K, meth), fi.where, not probs and bool(rets), "both operands flow into %s(...)" % comp if not probs else "; ".join(probs), {})
        # C05-5: splicing the members of an operand into the new composite is sound only if the operand is a composite of the
        # same kind (associativity of + resp. *): every use of `<operand>.kernels` must sit under isinstance(<operand>, comp)
        splices = 0
        fprobs = []
        for n in ast.walk(fi.node):
            if isinstance(n, ast.Attribute) and n.attr == "kernels" and isinstance(n.value, ast.Name) and n.value.id in (sn, on):
                splices += 1
                opnd = n.value.id
                guards = _isinstance_guards(fi.node, n, opnd)
                if comp not in guards:
                    fprobs.append("`%s.kernels` is spliced into %s(...) %s: the members of a %s become %s of the result" % (
                        opnd, comp, ("under isinstance(%s, %s)" % (opnd, "/".join(sorted(guards)))) if guards else "without a test of the operand's class",
                        "/".join(sorted(guards)) or "composite of unknown kind", "summands" if comp == "AdditiveKernel" else "factors"))
        if splices:
            rep.add("C05-5", "%s:Kernel.%s[flattening]" % (K, meth), fi.where, not fprobs, "%d splice(s) of operand members, each under isinstance(operand, %s)" % (splices, comp) if not fprobs else "; ".join(fprobs), {"splices": splices})
    # ScaleKernel: on every returning path  <base kernel on (x1, x2, diag=diag, ...)> x <self.outputscale up to reshaping>
    from ..symbolic import inline, walk_paths
    S = idx.find_class("ScaleKernel")
    fi = idx.method(S, "forward", own=True)
    probs = []
    nret = 0
    RESHAPE = ("unsqueeze", "view", "reshape", "expand", "to", "contiguous")
    for path, seq in walk_paths(fi):
        for st, env in seq:
            if not (isinstance(st, ast.Return) and st.value is not None):
                continue
            nret += 1
            r = inline(st.value, env)
            if isinstance(r, ast.BinOp) and isinstance(r.op, ast.Mult):
                fa, fb = r.left, r.right
            elif isinstance(r, ast.Call) and isinstance(r.func, ast.Attribute) and r.func.attr in ("mul", "mul_") and len(r.args) == 1:
                fa, fb = r.func.value, r.args[0]
            else:
                probs.append("returns `%s`, expected base value x outputscale" % src(st.value)[:60])
                continue
            base = scale = None
            for f in (fa, fb):
                g = _strip(f)
                if isinstance(g, ast.Call) and ((isinstance(g.func, ast.Attribute) and chain(g.func.value) == "self.base_kernel" and g.func.attr in ("forward", "__call__")) or chain(g.func) == "self.base_kernel"):
                    base = g
                else:
                    h = f
                    while isinstance(h, ast.Call) and isinstance(h.func, ast.Attribute) and h.func.attr in RESHAPE:
                        h = h.func.value
                    if chain(h) == "self.outputscale":
                        scale = h
                    elif chain(h) in ("self.raw_outputscale",):
                        probs.append("the scale is the raw parameter, not the constrained self.outputscale")
                        scale = h
            if base is None:
                probs.append("no factor of `%s` is the base kernel's value" % src(st.value)[:50])
            else:
                if [src(x) for x in base.args[:2]] != [fi.params[1], fi.params[2]]:
                    probs.append("the base kernel is not evaluated on (x1, x2)")
                kw = {k.arg: src(k.value) for k in base.keywords}
                if kw.get("diag") != "diag":
                    probs.append("diag is not forwarded to the base kernel")
            if scale is None:
                probs.append("no factor of `%s` is self.outputscale up to reshaping (the scale is modified or is not the constrained value)" % src(st.value)[:50])
    if nret == 0:
        probs.append("no returning path")
    rep.add("C05-2", "%s:ScaleKernel.forward" % S.module.name, fi.where, not probs, "base kernel value (same inputs, diag forwarded) times the reshaped constrained outputscale on %d returning path(s)" % nret if not probs else "; ".join(sorted(set(probs))), {})
    # LCM
    L = idx.find_class("LCMKernel")
    fi = idx.method(L, "forward", own=True)
    probs, nterms = fold_form(fi, "covar_module_list", ast.Add, "+", allow_forward=True)
    rep.add("C05-3", "%s:LCMKernel.forward" % L.module.name, fi.where, not probs and nterms >= 1, "sum over all member multitask kernels on the same inputs" if not probs else "; ".join(sorted(set(probs))[:4]), {})

    from .common_alias import aliasing_obligations
    funcs = []
    for c in idx.subclasses(Kc):
        if "keops" in c.module.name:
            continue
        for nm in ("forward", "covar_dist", "__call__"):
            if nm in c.methods:
                funcs.append(c.methods[nm])
    aliasing_obligations(idx, rep, "C05-4", funcs, 35, "kernel forward methods interpreted")


# ---- C05-7 ---------------------------------------------------------------------------------------------------------
def piecewise_polynomial(idx: ProgramIndex, rep: Report):
    """The piecewise-polynomial covariance functions are finite polynomials with integer-polynomial coefficients in j = floor(D/2)+q+1
    (Rasmussen & Williams, eq. 4.21; the class docstring quotes them).  `_get_cov(r, j, q)` is evaluated branch by branch into a
    polynomial in (j, r) with rational coefficients and compared with the reference polynomial of that q - an identity of polynomials,
    not a comparison of values."""
    from fractions import Fraction
    from ..domains.symshape import Poly
    rep.rule("C05-7", "PiecewisePolynomialKernel: the polynomial factor of every q equals the reference polynomial in (j, r) (Rasmussen & Williams eq. 4.21), as polynomials")
    J, R = Poly.sym("j"), Poly.sym("r")

    def P(c):
        return Poly.const(Fraction(c))
    REF = {
        0: P(1),
        1: (J + P(1)) * R + P(1),
        2: ((J * J + P(4) * J + P(3)) * R * R + (P(3) * J + P(6)) * R + P(3)).scale(Fraction(1, 3)),
        3: ((J * J * J + P(9) * J * J + P(23) * J + P(15)) * R * R * R + (P(6) * J * J + P(36) * J + P(45)) * R * R + (P(15) * J + P(45)) * R + P(15)).scale(Fraction(1, 15)),
    }
    try:
        fi = idx.function(idx.package + ".kernels.piecewise_polynomial_kernel", "_get_cov")
    except AnalysisError:
        raise AnalysisError("C05-7: _get_cov not found (anchor vanished)")
    rn, jn, qn = fi.params[0], fi.params[1], fi.params[2]

    def ev(e):
        if isinstance(e, ast.Constant) and isinstance(e.value, (int, float)) and not isinstance(e.value, bool):
            return P(Fraction(e.value).limit_denominator(10**6))
        if isinstance(e, ast.Name):
            return J if e.id == jn else (R if e.id == rn else None)
        if isinstance(e, ast.UnaryOp) and isinstance(e.op, ast.USub):
            v = ev(e.operand)
            return None if v is None else v.scale(Fraction(-1))
        if isinstance(e, ast.BinOp):
            a, b = ev(e.left), ev(e.right)
            if a is None or b is None:
                return None
            if isinstance(e.op, ast.Add):
                return a + b
            if isinstance(e.op, ast.Sub):
                return a - b
            if isinstance(e.op, ast.Mult):
                return a * b
            if isinstance(e.op, ast.Div) and b.is_const() and b.terms:
                return a.scale(1 / Fraction(b.terms[()]))
            if isinstance(e.op, ast.Pow) and b.is_const() and b.terms and Fraction(b.terms[()]).denominator == 1 and 0 <= int(b.terms[()]) <= 6:
                out = P(1)
                for _ in range(int(b.terms[()])):
                    out = out * a
                return out
            return None
        if isinstance(e, ast.Call) and isinstance(e.func, ast.Attribute) and e.func.attr in ("square",) and not e.args:
            v = ev(e.func.value)
            return None if v is None else v * v
        if isinstance(e, ast.Call) and isinstance(e.func, ast.Attribute) and e.func.attr == "pow" and len(e.args) == 1:
            return ev(ast.BinOp(left=e.func.value, op=ast.Pow(), right=e.args[0]))
        return None

    n = 0
    found = {}
    for st in ast.walk(fi.node):
        if isinstance(st, ast.If) and isinstance(st.test, ast.Compare) and isinstance(st.test.left, ast.Name) and st.test.left.id == qn and len(st.test.ops) == 1 and isinstance(st.test.ops[0], ast.Eq) \
           and isinstance(st.test.comparators[0], ast.Constant):
            q = st.test.comparators[0].value
            rets = [r.value for b_ in st.body for r in ast.walk(b_) if isinstance(r, ast.Return) and r.value is not None]
            if len(rets) == 1:
                found[q] = rets[0]
    for q in sorted(REF):
        n += 1
        if q not in found:
            rep.add("C05-7", "%s:_get_cov[q=%d]" % (fi.module.name, q), fi.where, False, "no `if q == %d: return ...` branch found" % q, {})
            continue
        v = ev(found[q])
        if v is None:
            rep.add("C05-7", "%s:_get_cov[q=%d]" % (fi.module.name, q), "%s:%d" % (fi.module.relpath, found[q].lineno), False, "`%s` is not a polynomial in (j, r) that the evaluator understands" % " ".join(src(found[q]).split())[:70], {})
            continue
        ok = v == REF[q]
        diff = (v - REF[q]).show() if not ok else ""
        rep.add("C05-7", "%s:_get_cov[q=%d]" % (fi.module.name, q), "%s:%d" % (fi.module.relpath, found[q].lineno), ok,
                "equals the reference polynomial" if ok else "the code's polynomial minus the reference (R&W 4.21) is %s, not 0: the kernel is not the documented covariance function" % diff[:120], {})
    rep.floor("C05-7", "piecewise polynomial orders", n, 4)


# ---- C05-8 ---------------------------------------------------------------------------------------------------------
def derivative_chain(idx: ProgramIndex, rep: Report):
    """PolynomialKernelGrad assembles its blocks from u^p, p u^(p-1) and p (p-1) u^(p-2) with u = x1.x2 + offset: value block, gradient blocks
    (times x) and curvature part of the Hessian block.  Whatever u is, the three factors must be successive derivatives IN THE SAME u: same
    base expression, exponent p - k, coefficient p (p-1) ... (p-k+1) - decided with polynomials in the symbol p, per branch (diag / full)."""
    from ..domains.symshape import Poly
    rep.rule("C05-8", "PolynomialKernelGrad: the factors of the value, gradient and Hessian blocks are u^p, p u^(p-1), p (p-1) u^(p-2) in one and the same inner variable u (polynomial identity in p)")
    C = idx.find_class("PolynomialKernelGrad")
    fw = idx.method(C, "forward", own=True)
    P = Poly.sym("p")

    def poly_in_p(e: ast.AST):
        if isinstance(e, ast.Constant) and isinstance(e.value, int):
            return Poly.const(e.value)
        if src(e) == "self.power":
            return P
        if isinstance(e, ast.BinOp) and isinstance(e.op, (ast.Add, ast.Sub, ast.Mult)):
            a, b = poly_in_p(e.left), poly_in_p(e.right)
            if a is None or b is None:
                return None
            return a + b if isinstance(e.op, ast.Add) else (a - b if isinstance(e.op, ast.Sub) else a * b)
        if isinstance(e, ast.BinOp) and isinstance(e.op, ast.Pow) and isinstance(e.right, ast.Constant) and isinstance(e.right.value, int) and 0 <= e.right.value <= 4:
            a = poly_in_p(e.left)
            if a is None:
                return None
            out = Poly.const(1)
            for _ in range(e.right.value):
                out = out * a
            return out
        return None

    def factors(e: ast.AST) -> List[ast.AST]:
        if isinstance(e, ast.BinOp) and isinstance(e.op, ast.Mult):
            return factors(e.left) + factors(e.right)
        return [e]
    branches = []
    for st in ast.walk(fw.node):
        if isinstance(st, ast.If) and src(st.test) == "diag":
            branches = [("diag", st.body), ("full", st.orelse)]
    if not branches:
        raise AnalysisError("C05-8: PolynomialKernelGrad.forward no longer branches on diag (anchor vanished)")
    n = 0
    for label, body in branches:
        assigns = {}
        for st in body:
            for a in ast.walk(st):
                if isinstance(a, ast.Assign) and isinstance(a.targets[0], ast.Name):
                    assigns.setdefault(a.targets[0].id, a.value)
        found = {}  # order k -> (coef Poly, base text)
        for name, v in assigns.items():
            fs = factors(v)
            pw = [f for f in fs if isinstance(f, ast.Call) and isinstance(f.func, ast.Attribute) and f.func.attr == "pow" and len(f.args) == 1]
            if len(pw) != 1:
                continue
            ex = poly_in_p(pw[0].args[0])
            coef = Poly.const(1)
            okc = True
            for f in fs:
                if f is pw[0]:
                    continue
                c = poly_in_p(f)
                if c is None:
                    okc = False
                    break
                coef = coef * c
            if ex is None or not okc:
                continue
            k = None
            for kk in range(0, 4):
                if ex == P - Poly.const(kk):
                    k = kk
            if k is None:
                continue
            base = pw[0].func.value
            base_txt = norm(assigns[base.id]) if isinstance(base, ast.Name) and base.id in assigns else norm(base)
            base_name = base.id if isinstance(base, ast.Name) else norm(base)
            found.setdefault(k, []).append((name, coef, base_name, base_txt))
        n += 1
        probs = []
        for k in (0, 1, 2):
            if k not in found:
                probs.append("no factor u^(p-%d) found" % k)
        want = Poly.const(1)
        bases = set()
        for k in (0, 1, 2):
            for name, coef, bname, btxt in found.get(k, []):
                if coef != want:
                    probs.append("%s: the coefficient of u^(p-%d) is %s, expected %s" % (name, k, coef.show(), want.show()))
                bases.add((bname, btxt))
            want = want * (P - Poly.const(k))
        if len({b for _n, b in bases}) > 1 or len({n_ for n_, _b in bases}) > 1:
            probs.append("the factors are powers of different inner variables: %s - a derivative block built from another u than the value block is not the derivative of the value block" % "; ".join("%s = %s" % (a_, b_[:40]) for a_, b_ in sorted(bases)))
        rep.add("C05-8", "%s:PolynomialKernelGrad.forward[%s branch]" % (C.module.name, label), fw.where, not probs,
                "u^p, p u^(p-1), (p^2 - p) u^(p-2) in the same u = %s" % (sorted(bases)[0][1][:50] if bases else "?") if not probs else "; ".join(probs), {})
    rep.floor("C05-8", "branches of PolynomialKernelGrad.forward", n, 2)


# ---- C05-9 ---------------------------------------------------------------------------------------------------------
def optional_parameters(idx: ProgramIndex, rep: Report):
    """A parameter whose default is None stands for "derive it" (the documented default of sum_interaction_terms' max_degree is D).  In the
    kernel and utility code every such parameter is tested for None, re-bound, or only handed on - except where the default was forgotten:
    there the None reaches arithmetic / a size argument / an attribute access, and the documented default call raises."""
    rep.rule("C05-9", "in gpytorch.kernels and gpytorch.utils a parameter with default None is tested for None (or re-bound) before it is used in arithmetic, as a size, or dereferenced: the documented default call works")
    n = 0
    for fi in sorted(idx.all_functions(), key=lambda f: (f.module.name, f.qualname)):
        if not (fi.module.name.startswith("gpytorch.kernels") or fi.module.name.startswith("gpytorch.utils")):
            continue
        a = fi.node.args
        names = [x.arg for x in a.posonlyargs + a.args]
        defaults = dict(zip(names[len(names) - len(a.defaults):], a.defaults))
        for k, d in zip(a.kwonlyargs, a.kw_defaults):
            if d is not None:
                defaults[k.arg] = d
        for pn, d in sorted(defaults.items()):
            if not (isinstance(d, ast.Constant) and d.value is None):
                continue
            n += 1
            # events in source order: ('guard' | 'rebind' | 'use', line)
            events = []
            for x in ast.walk(fi.node):
                if isinstance(x, ast.Compare) and any(isinstance(y, ast.Name) and y.id == pn for y in [x.left] + x.comparators) and any(isinstance(o, (ast.Is, ast.IsNot, ast.Eq, ast.NotEq)) for o in x.ops):
                    events.append((x.lineno, 0, "guard"))
                if isinstance(x, ast.Call) and isinstance(x.func, ast.Name) and x.func.id in ("isinstance", "hasattr", "callable") and x.args and isinstance(x.args[0], ast.Name) and x.args[0].id == pn:
                    events.append((x.lineno, 0, "guard"))
                if isinstance(x, (ast.If, ast.IfExp, ast.While)) and any(isinstance(y, ast.Name) and y.id == pn for y in ast.walk(x.test)):
                    events.append((x.test.lineno, 0, "guard"))
                if isinstance(x, ast.BoolOp) and any(isinstance(y, ast.Name) and y.id == pn for y in x.values):
                    events.append((x.lineno, 0, "guard"))
                if isinstance(x, (ast.Assign, ast.AugAssign, ast.AnnAssign)):
                    tg = x.targets if isinstance(x, ast.Assign) else [x.target]
                    if any(isinstance(t, ast.Name) and t.id == pn for t in tg):
                        events.append((x.lineno, 1, "rebind"))
                use = None
                if isinstance(x, ast.BinOp) and any(isinstance(y, ast.Name) and y.id == pn for y in (x.left, x.right)):
                    use = x
                if isinstance(x, ast.Call) and (chain(x.func) or "") in ("range", "torch.arange", "torch.zeros", "torch.ones", "torch.eye", "len", "int", "float") and any(isinstance(y, ast.Name) and y.id == pn for y in x.args):
                    use = x
                if isinstance(x, ast.Attribute) and isinstance(x.value, ast.Name) and x.value.id == pn:
                    use = x
                if isinstance(x, ast.Subscript) and isinstance(x.value, ast.Name) and x.value.id == pn:
                    use = x
                if use is not None:
                    events.append((use.lineno, 2, "use:" + " ".join(src(use).split())[:40]))
            events.sort()
            first = next((e for e in events), None)
            bad = first is not None and first[2].startswith("use:")
            if bad:
                rep.add("C05-9", "%s:%s[%s=None]" % (fi.module.name, fi.qualname, pn), "%s:%d" % (fi.module.relpath, first[0]), False,
                        "the parameter `%s` defaults to None and reaches `%s` without a test for None or a re-binding: the call with the default raises (the documented default has to be derived first)" % (pn, first[2][4:]), {})
    rep.add("C05-9", "gpytorch.kernels / gpytorch.utils:<parameters with default None>", "gpytorch/", True, "%d parameter(s) inspected" % n, {"parameters": n}, trivial=True)
    rep.floor("C05-9", "parameters with default None in kernels / utils", n, 60)
