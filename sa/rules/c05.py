"""C05 - kernels: the *composition* clause only.

"sums, products and scalings of kernels evaluate to the sums, products and scalings of their parts":
C05-1  AdditiveKernel.forward is +1 * every member kernel evaluated (through __call__) on the same (x1, x2, diag, **params);
       ProductKernel.forward multiplies exactly those terms; Kernel.__add__/__mul__ build the composite from both operands in order
C05-2  ScaleKernel.forward is the base kernel's value times the constrained outputscale, and nothing else
C05-3  LCMKernel.forward is the sum over all member multitask kernels
The covariance formulae of the individual kernels are real-valued functions and are NOT decided.  (DESIGN.md section 9.7.)
"""
from __future__ import annotations

import ast
from typing import List

from ..cfg import enumerate_paths, RETURN
from ..index import (AnalysisError, ClassInfo, FuncInfo, ProgramIndex, body_without_docstring, calls_in, chain, norm, src)
from ..report import Report

TRANSPARENT_CALLS = {"to_linear_operator", "to_dense"}


def _strip(e: ast.AST) -> ast.AST:
    while isinstance(e, ast.Call) and (chain(e.func) or "").split(".")[-1] in TRANSPARENT_CALLS and e.args:
        e = e.args[0]
    return e


def _member_call_ok(call: ast.AST, member_names, fi: FuncInfo) -> List[str]:
    """`kern(x1, x2, diag=diag, **params)` on a member kernel, through __call__"""
    probs = []
    call = _strip(call)
    if not isinstance(call, ast.Call):
        return ["term `%s` is not a call of a member kernel" % src(call)[:40]]
    f = call.func
    if isinstance(f, ast.Attribute) and f.attr == "forward":
        probs.append("member kernel is evaluated through .forward (bypassing active_dims), not through __call__")
        f = f.value
    base = f
    while isinstance(base, ast.Subscript):
        base = base.value
    if not ((isinstance(base, ast.Name) and base.id in member_names) or chain(base) in member_names):
        probs.append("`%s` is not a member kernel" % src(f))
    x1, x2 = fi.params[1], fi.params[2]
    pos = [src(a) for a in call.args]
    if pos[:2] != [x1, x2]:
        probs.append("member kernel is evaluated on (%s), expected (%s, %s)" % (", ".join(pos[:2]), x1, x2))
    kw = {k.arg: src(k.value) for k in call.keywords}
    if "diag" in fi.params and kw.get("diag") != "diag":
        probs.append("diag is not forwarded to the member kernel")
    if fi.node.args.kwarg and None not in kw:
        probs.append("**%s is not forwarded to the member kernel" % fi.node.args.kwarg.arg)
    return probs


def _isinstance_guards(fn: ast.AST, node: ast.AST, operand: str) -> set:
    """classes C such that `node` is evaluated only when isinstance(operand, C) holds (IfExp body / If body, conjunctions)"""
    out = set()

    def classes_of(test) -> set:
        cs = set()
        if isinstance(test, ast.BoolOp) and isinstance(test.op, ast.And):
            for v in test.values:
                cs |= classes_of(v)
        elif isinstance(test, ast.Call) and isinstance(test.func, ast.Name) and test.func.id == "isinstance" and len(test.args) == 2 \
                and isinstance(test.args[0], ast.Name) and test.args[0].id == operand:
            c = test.args[1]
            for e in (c.elts if isinstance(c, ast.Tuple) else [c]):
                cs.add(src(e).split(".")[-1])
            if isinstance(c, ast.Tuple) and len(c.elts) > 1:
                cs = {"|".join(sorted(cs))}  # a union test guarantees neither class
        return cs

    def contains(tree, target) -> bool:
        return any(x is target for x in ast.walk(tree))

    def rec(n):
        if isinstance(n, ast.IfExp) and contains(n.body, node):
            out.update(classes_of(n.test))
        if isinstance(n, ast.If) and any(contains(st, node) for st in n.body):
            out.update(classes_of(n.test))
        for ch in ast.iter_child_nodes(n):
            if contains(ch, node):
                rec(ch)

    rec(fn)
    return out


def run(idx: ProgramIndex, rep: Report, tier: str):
    rep.explanation = (
        "Only the composition clause of C05 is decided: the forward methods of AdditiveKernel, ProductKernel, ScaleKernel and LCMKernel "
        "are analysed path by path; every accumulation step must combine the running result with one member kernel evaluated through "
        "__call__ on the same inputs and keywords, with + (additive), * (product) and nothing else, and must cover all members "
        "(first member / loop over the rest, or loop over all). Kernel.__add__/__mul__ must pass both operands, in order. The "
        "covariance formulae of the individual kernels are equalities of real-valued functions and are not decidable from code shape.")
    rep.rule("C05-1", "Additive/Product kernels combine every member kernel, evaluated through __call__ on the same arguments, with + / *")
    rep.rule("C05-2", "ScaleKernel = base kernel value x constrained outputscale")
    rep.rule("C05-5", "k1 + k2 / k1 * k2 flatten an operand's members into the new composite only when the operand is a composite of the same kind")
    rep.rule("C05-4", "no in-place aliasing hazard in kernel forward code and the distance helpers (storage/version domain)")
    rep.rule("C05-3", "LCMKernel = sum over all member multitask kernels")
    K = "gpytorch.kernels.kernel"
    for cname, op, opname in (("AdditiveKernel", ast.Add, "+"), ("ProductKernel", ast.Mult, "*")):
        C = idx.cls(K, cname)
        fi = idx.method(C, "forward", own=True)
        probs = []
        steps = 0
        covers_all = False
        for n in ast.walk(fi.node):
            if isinstance(n, ast.For):
                it = src(n.iter)
                if it == "self.kernels":
                    covers_all = True
                elif it == "self.kernels[1:]":
                    first = [c for c in calls_in(fi.node) if isinstance(c.func, ast.Subscript) and src(c.func) == "self.kernels[0]"]
                    covers_all = bool(first)
                    for c in first:
                        probs += _member_call_ok(c, {"self.kernels"}, fi)
                var = n.target.id if isinstance(n.target, ast.Name) else None
                # term assignments inside the loop
                terms = {}
                for a in ast.walk(n):
                    if isinstance(a, ast.Assign) and isinstance(a.targets[0], ast.Name) and isinstance(_strip(a.value), ast.Call) and isinstance(_strip(a.value).func, (ast.Name, ast.Attribute)) and src(_strip(a.value).func).split(".")[0] == var:
                        terms[a.targets[0].id] = a.value
                        probs += _member_call_ok(a.value, {var}, fi)
                for a in ast.walk(n):
                    if isinstance(a, ast.Assign) and isinstance(a.targets[0], ast.Name) and a.targets[0].id == "res":
                        steps += 1
                        v = a.value
                        if not (isinstance(v, ast.BinOp) and isinstance(v.op, op) and src(v.left) == "res"):
                            probs.append("accumulation step `%s` is not `res %s <member term>`" % (norm(a)[:60], opname))
                        else:
                            r = _strip(v.right)
                            if isinstance(r, ast.Name) and r.id in terms:
                                pass
                            elif isinstance(r, ast.Call):
                                probs += _member_call_ok(r, {var}, fi)
                            else:
                                probs.append("accumulated term `%s` is not a member kernel's value" % src(v.right)[:40])
                    if isinstance(a, ast.AugAssign) and src(a.target) == "res":
                        steps += 1
                        if not isinstance(a.op, op):
                            probs.append("accumulation `%s` does not use %s" % (norm(a)[:50], opname))
        if not covers_all:
            probs.append("the members are not all covered (no loop over self.kernels / first + loop over the rest)")
        rets = [r.value for r in ast.walk(fi.node) if isinstance(r, ast.Return) and r.value is not None]
        if not all(src(r) == "res" for r in rets):
            probs.append("forward does not return the accumulated result")
        rep.add("C05-1", "%s:%s.forward" % (K, cname), fi.where, not probs and steps >= 1, "result %s= member(x1, x2, diag=diag, **params) for every member (%d accumulation sites)" % (opname, steps) if not probs else "; ".join(sorted(set(probs))), {})
    Kc = idx.cls(K, "Kernel")
    for meth, comp, attr in (("__add__", "AdditiveKernel", "AdditiveKernel"), ("__mul__", "ProductKernel", "ProductKernel")):
        fi = idx.method(Kc, meth, own=True)
        sn, on = fi.params[0], fi.params[1]
        rets = [r.value for r in ast.walk(fi.node) if isinstance(r, ast.Return) and r.value is not None]
        probs = []
        for r in rets:
            if not (isinstance(r, ast.Call) and src(r.func) == comp):
                probs.append("returns `%s`, not %s(...)" % (src(r)[:40], comp))
                continue
            # statements that feed the constructor arguments (def-use closure over locals), in source order
            names = {x.id for a in r.args for x in ast.walk(a) if isinstance(x, ast.Name)}
            feeding = [r]
            changed = True
            while changed:
                changed = False
                for st in ast.walk(fi.node):
                    tg = None
                    if isinstance(st, ast.Assign) and isinstance(st.targets[0], ast.Name):
                        tg = st.targets[0].id
                    elif isinstance(st, ast.AugAssign) and isinstance(st.target, ast.Name):
                        tg = st.target.id
                    elif isinstance(st, ast.Expr) and isinstance(st.value, ast.Call) and isinstance(st.value.func, ast.Attribute) and st.value.func.attr in ("append", "extend") and isinstance(st.value.func.value, ast.Name):
                        tg = st.value.func.value.id
                    if tg in names and st not in feeding:
                        feeding.append(st)
                        names |= {x.id for x in ast.walk(st) if isinstance(x, ast.Name)}
                        changed = True
            feeding.sort(key=lambda n: (n.lineno, n.col_offset))
            first_self = next((n.lineno * 1000 + min(x.col_offset for x in ast.walk(n) if isinstance(x, ast.Name) and x.id == sn) for n in feeding if any(isinstance(x, ast.Name) and x.id == sn for x in ast.walk(n))), None)
            first_other = next((n.lineno * 1000 + min(x.col_offset for x in ast.walk(n) if isinstance(x, ast.Name) and x.id == on) for n in feeding if any(isinstance(x, ast.Name) and x.id == on for x in ast.walk(n))), None)
            if first_self is None or first_other is None:
                probs.append("operand `%s` does not reach the composite kernel" % (sn if first_self is None else on))
            elif first_self > first_other:
                rep.observe("C05-1", "%s:Kernel.%s[order]" % (K, meth), fi.where, "operands are passed as (other, self): values equal by commutativity, order of kernels differs")
        rep.add("C05-1", "%s:Kernel.%s" % (K, meth), fi.where, not probs and bool(rets), "both operands flow into %s(...)" % comp if not probs else "; ".join(probs), {})
        # C05-5: splicing the members of an operand into the new composite is sound only if the operand is a composite of the
        # same kind (associativity of + resp. *): every use of `<operand>.kernels` must sit under isinstance(<operand>, comp)
        splices = 0
        fprobs = []
        for n in ast.walk(fi.node):
            if isinstance(n, ast.Attribute) and n.attr == "kernels" and isinstance(n.value, ast.Name) and n.value.id in (sn, on):
                splices += 1
                opnd = n.value.id
                guards = _isinstance_guards(fi.node, n, opnd)
                if comp not in guards:
                    fprobs.append("`%s.kernels` is spliced into %s(...) %s: the members of a %s become %s of the result" % (
                        opnd, comp, ("under isinstance(%s, %s)" % (opnd, "/".join(sorted(guards)))) if guards else "without a test of the operand's class",
                        "/".join(sorted(guards)) or "composite of unknown kind", "summands" if comp == "AdditiveKernel" else "factors"))
        if splices:
            rep.add("C05-5", "%s:Kernel.%s[flattening]" % (K, meth), fi.where, not fprobs, "%d splice(s) of operand members, each under isinstance(operand, %s)" % (splices, comp) if not fprobs else "; ".join(fprobs), {"splices": splices})
    # ScaleKernel
    S = idx.find_class("ScaleKernel")
    fi = idx.method(S, "forward", own=True)
    probs = []
    base_calls = [c for c in calls_in(fi.node) if isinstance(c.func, ast.Attribute) and chain(c.func.value) == "self.base_kernel" and c.func.attr in ("forward", "__call__") or chain(c.func) == "self.base_kernel"]
    if len(base_calls) != 1:
        probs.append("expected exactly one evaluation of the base kernel")
    else:
        c = base_calls[0]
        if [src(a) for a in c.args[:2]] != [fi.params[1], fi.params[2]]:
            probs.append("the base kernel is not evaluated on (x1, x2)")
        kw = {k.arg: src(k.value) for k in c.keywords}
        if kw.get("diag") != "diag":
            probs.append("diag is not forwarded to the base kernel")
    scale_src = [a for a in ast.walk(fi.node) if isinstance(a, ast.Assign) and isinstance(a.targets[0], ast.Name) and a.targets[0].id == "outputscales"]
    if not scale_src or src(scale_src[0].value) != "self.outputscale":
        probs.append("the scale is not the constrained self.outputscale")
    for r in [r.value for r in ast.walk(fi.node) if isinstance(r, ast.Return) and r.value is not None]:
        ok = (isinstance(r, ast.BinOp) and isinstance(r.op, ast.Mult) and {src(_strip(r.left)), src(_strip(r.right))} == {"orig_output", "outputscales"}) or \
             (isinstance(r, ast.Call) and isinstance(r.func, ast.Attribute) and r.func.attr in ("mul", "mul_") and src(_strip(r.func.value)) == "orig_output" and src(r.args[0]) == "outputscales")
        if not ok:
            probs.append("returns `%s`, expected base value x outputscale" % src(r)[:60])
    # outputscales only reshaped in between
    for a in scale_src[1:]:
        v = a.value
        if not (isinstance(v, ast.Call) and isinstance(v.func, ast.Attribute) and v.func.attr in ("unsqueeze", "view", "reshape") and src(v.func.value) == "outputscales"):
            probs.append("the scale is modified by `%s` (only reshaping is allowed)" % norm(a)[:60])
    rep.add("C05-2", "%s:ScaleKernel.forward" % S.module.name, fi.where, not probs, "base kernel value (same inputs, diag forwarded) times the reshaped constrained outputscale" if not probs else "; ".join(sorted(set(probs))), {})
    # LCM
    L = idx.find_class("LCMKernel")
    fi = idx.method(L, "forward", own=True)
    t = norm(fi.node)
    probs = []
    first = "res = self.covar_module_list[0].forward(%s, %s, **params)" % (fi.params[1], fi.params[2]) in t or "res = self.covar_module_list[0](%s, %s, **params)" % (fi.params[1], fi.params[2]) in t
    loop = [n for n in ast.walk(fi.node) if isinstance(n, ast.For) and src(n.iter) == "self.covar_module_list[1:]"]
    allloop = [n for n in ast.walk(fi.node) if isinstance(n, ast.For) and src(n.iter) == "self.covar_module_list"]
    if not ((first and loop) or allloop):
        probs.append("not all member kernels are covered")
    for n in loop + allloop:
        accs = [a for a in ast.walk(n) if (isinstance(a, ast.AugAssign) and src(a.target) == "res") or (isinstance(a, ast.Assign) and src(a.targets[0]) == "res")]
        for a in accs:
            if isinstance(a, ast.AugAssign):
                if not isinstance(a.op, ast.Add):
                    probs.append("members are combined with `%s`, not +" % norm(a)[:40])
                term = a.value
            else:
                v = a.value
                if not (isinstance(v, ast.BinOp) and isinstance(v.op, ast.Add) and src(v.left) == "res"):
                    probs.append("members are not summed: `%s`" % norm(a)[:40])
                    continue
                term = v.right
            tc = _strip(term)
            if not (isinstance(tc, ast.Call) and [src(x) for x in tc.args[:2]] == [fi.params[1], fi.params[2]]):
                probs.append("member term `%s` is not the member kernel on (x1, x2)" % src(term)[:40])
        if not accs:
            probs.append("loop does not accumulate")
    rep.add("C05-3", "%s:LCMKernel.forward" % L.module.name, fi.where, not probs, "sum over all member multitask kernels on the same inputs" if not probs else "; ".join(sorted(set(probs))), {})

    from .common_alias import aliasing_obligations
    funcs = []
    for c in idx.subclasses(Kc):
        if "keops" in c.module.name:
            continue
        for nm in ("forward", "covar_dist", "__call__"):
            if nm in c.methods:
                funcs.append(c.methods[nm])
    aliasing_obligations(idx, rep, "C05-4", funcs, 35, "kernel forward methods interpreted")
