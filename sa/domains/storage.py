"""Storage/version abstract interpretation of in-place tensor code (C19-2).

Every tensor value is a pair (storage id, version).  Out-of-place methods, arithmetic and calls of unknown callables
allocate a new storage; `x.op_()`, slice assignment, `+=` and `out=` bump the version of x's storage and refresh only the
*name through which the update was made*; views share storage.  A name is *stale* when its storage has a newer version
created through another name.  Checks: finalised values (returned, saved for backward, stored on ctx) must not be stale at
exit, no stale reads, no mutation of storages owned by the Function's inputs or by saved tensors.
"""
from __future__ import annotations

import ast
from dataclasses import dataclass, field
from typing import Callable, Dict, List, Optional, Set, Tuple

from ..index import chain, src

VIEW_METHODS = {"view", "transpose", "diagonal", "expand", "expand_as", "squeeze", "unsqueeze", "detach", "reshape", "contiguous",
                "narrow", "permute", "flatten", "view_as", "t", "unbind", "select", "unfold", "tril", "triu"} - {"tril", "triu"}
VIEW_ATTRS = {"T", "mT", "data", "real"}
META_ATTRS = {"shape", "dtype", "device", "ndim", "requires_grad", "grad_fn", "is_cuda", "layout"}
META_METHODS = {"size", "dim", "ndimension", "numel", "type", "is_contiguous", "stride", "element_size", "tolist", "item"}
NON_MUTATING_UNDERSCORE = {"requires_grad_", "register_hook", "retain_grad", "share_memory_"}


@dataclass
class TV:
    sid: int
    ver: int
    prov: str = "local"  # local | arg | saved


class StorageInterp:
    def __init__(self, arg_names: List[str], callable_args: Set[str], mutating_helpers: Dict[str, Set[int]], saved_names: Optional[Set[str]] = None,
                 self_name: Optional[str] = None, arg_attrs_alias: bool = False):
        self.self_name = self_name  # when set, `self.<attr>` reads are tensors owned by the object ("state")
        self.arg_attrs_alias = arg_attrs_alias  # when set, `<argument>.<attr>` may be a view of the argument (distribution objects: mean, variance, ...)
        self.state_sids: Dict[str, int] = {}
        self.latest: Dict[int, int] = {}
        self.prov: Dict[int, str] = {}
        self.env: Dict[str, Optional[TV]] = {}
        self.next_sid = 0
        self.problems: List[str] = []
        self.finalised: List[Tuple[str, str, TV]] = []  # (role, text, value)
        self.callable_args = callable_args
        self.mutating_helpers = mutating_helpers
        self.last_writer: Dict[int, str] = {}
        for a in arg_names:
            if a in callable_args:
                self.env[a] = None
            else:
                self.env[a] = self.fresh("arg")

    def fresh(self, prov="local") -> TV:
        sid = self.next_sid
        self.next_sid += 1
        self.latest[sid] = 0
        self.prov[sid] = prov
        return TV(sid, 0, prov)

    # ---- reading / mutating -------------------------------------------------------------------------------------------
    def read_name(self, name: str, node: ast.AST, content: bool = True) -> Optional[TV]:
        v = self.env.get(name)
        if v is None:
            return None
        if content and v.ver < self.latest[v.sid]:
            self.problems.append("stale read of `%s` at line %d: its storage was overwritten in place through `%s` after `%s` was bound" % (name, getattr(node, "lineno", 0), self.last_writer.get(v.sid, "?"), name))
        return v

    def mutate(self, v: TV, via: str, node: ast.AST) -> TV:
        if self.prov.get(v.sid) == "arg":
            self.problems.append("in-place update `%s` (line %d) writes to the storage of an input of the Function (autograd forbids it without mark_dirty; the caller's tensor is changed)" % (src(node)[:60], getattr(node, "lineno", 0)))
        if self.prov.get(v.sid) == "state":
            t = src(node)
            dict_store = False
            tg = node.targets[0] if isinstance(node, ast.Assign) else (node.target if isinstance(node, ast.AugAssign) else None)
            if isinstance(tg, ast.Subscript) and not any(isinstance(x, (ast.Slice, ast.Tuple)) or (isinstance(x, ast.Constant) and x.value is Ellipsis) for x in ast.walk(tg.slice)):
                dict_store = True  # `self._d[key] = v`: a mapping/list slot, not a tensor slice
            if not dict_store and ".data" not in t and not any(m in t for m in (".fill_(", ".requires_grad_(", ".zero_(")):
                self.problems.append("in-place update `%s` (line %d) overwrites a tensor owned by the object (a parameter, buffer, cache or training data): later calls see the modified value" % (t[:60], getattr(node, "lineno", 0)))
        if self.prov.get(v.sid) == "saved":
            self.problems.append("in-place update `%s` (line %d) writes to a tensor saved for backward" % (src(node)[:60], getattr(node, "lineno", 0)))
        self.latest[v.sid] += 1
        self.last_writer[v.sid] = via
        return TV(v.sid, self.latest[v.sid], v.prov)

    # ---- expressions --------------------------------------------------------------------------------------------------
    def ev(self, e: ast.AST, content: bool = True) -> Optional[TV]:
        if isinstance(e, ast.Name):
            return self.read_name(e.id, e, content)
        if isinstance(e, ast.Constant):
            return None
        if isinstance(e, ast.Attribute):
            if e.attr in META_ATTRS:
                self.ev(e.value, content=False)
                return None
            if self.self_name is not None and isinstance(e.value, ast.Name) and e.value.id == self.self_name:
                key = e.attr
                if key not in self.state_sids:
                    tv = self.fresh("state")
                    self.state_sids[key] = tv.sid
                sid = self.state_sids[key]
                return TV(sid, self.latest[sid], "state")
            b = self.ev(e.value, content)
            if b is not None and e.attr in VIEW_ATTRS:
                return TV(b.sid, self.latest[b.sid], b.prov)
            if b is not None and self.arg_attrs_alias and b.prov == "arg":
                return TV(b.sid, self.latest[b.sid], b.prov)
            return None
        if isinstance(e, ast.Subscript):
            b = self.ev(e.value, content)
            self.ev_any(e.slice)
            if b is not None:
                return TV(b.sid, self.latest[b.sid], b.prov)  # conservative: a view
            return None
        if isinstance(e, (ast.BinOp,)):
            l = self.ev(e.left)
            r = self.ev(e.right)
            if l is not None and l.ver < self.latest[l.sid]:
                self.problems.append("left operand `%s` (line %d) is overwritten in place by the right operand through `%s`" % (src(e.left)[:40], getattr(e, "lineno", 0), self.last_writer.get(l.sid, "?")))
            return self.fresh()
        if isinstance(e, ast.UnaryOp):
            v = self.ev(e.operand)
            return self.fresh() if v is not None else None
        if isinstance(e, (ast.Compare, ast.BoolOp)):
            for x in ast.iter_child_nodes(e):
                if isinstance(x, ast.expr):
                    self.ev(x)
            return None
        if isinstance(e, ast.IfExp):
            # the caller forks on tracked booleans; here evaluate conservatively both (used only when undecided)
            a = self.ev(e.body)
            b = self.ev(e.orelse)
            return a if a is not None else b
        if isinstance(e, (ast.Tuple, ast.List)):
            for x in e.elts:
                self.ev(x)
            return None
        if isinstance(e, ast.Call):
            return self.ev_call(e)
        if isinstance(e, ast.Starred):
            return self.ev(e.value)
        for x in ast.iter_child_nodes(e):
            if isinstance(x, ast.expr):
                self.ev(x)
        return None

    def ev_any(self, e: ast.AST):
        for x in ast.walk(e):
            if isinstance(x, ast.Name) and isinstance(x.ctx, ast.Load):
                self.read_name(x.id, x, content=True)

    def _check_operands(self, c: ast.Call, vals: List[Optional[TV]]):
        """an operand evaluated earlier must not have been overwritten in place by a later operand of the same call"""
        for a, v in vals:
            if v is not None and v.ver < self.latest[v.sid]:
                self.problems.append("operand `%s` of `%s` (line %d) is overwritten in place by a later operand of the same call through `%s` (they share storage)"
                                     % (src(a)[:40], src(c.func)[:40], getattr(c, "lineno", 0), self.last_writer.get(v.sid, "?")))

    def ev_call(self, c: ast.Call) -> Optional[TV]:
        r = self._ev_call(c)
        return r

    def _ev_call(self, c: ast.Call) -> Optional[TV]:
        f = c.func
        # out= keyword
        outv = None
        for k in c.keywords:
            if k.arg == "out":
                outv = self.ev(k.value, content=False)
        if isinstance(f, ast.Attribute):
            m = f.attr
            if m in META_METHODS:
                self.ev(f.value, content=False)
                for a in c.args:
                    self.ev(a)
                return None
            # ctx.save_for_backward handled by the driver
            recv = self.ev(f.value)
            vals = [(f.value, recv)]
            for a in c.args:
                vals.append((a, self.ev(a)))
            for k in c.keywords:
                if k.arg != "out":
                    vals.append((k.value, self.ev(k.value)))
            self._check_operands(c, vals)
            if recv is not None:
                if m.endswith("_") and not m.endswith("__") and m not in NON_MUTATING_UNDERSCORE:
                    root = _inplace_root(f.value)
                    nv = self.mutate(recv, root or src(f.value)[:40], c)
                    if root is not None:
                        self.env[root] = nv
                    return nv
                if m == "contiguous" and isinstance(f.value, ast.Call) and isinstance(f.value.func, ast.Attribute) and f.value.func.attr in ("expand", "expand_as", "transpose", "permute", "repeat"):
                    return self.fresh()  # a non-contiguous view is materialised by contiguous()
                if m in VIEW_METHODS:
                    return TV(recv.sid, self.latest[recv.sid], recv.prov)
                return self.fresh()
            # module function: torch.xxx(...)
            cn = chain(f) or ""
            if cn.startswith("torch.") or cn.startswith("math."):
                if outv is not None:
                    return self.mutate(outv, "out=", c)
                if cn.startswith("math."):
                    return None
                return self.fresh()
            # static helper of the class / unknown attribute call
            short = cn.split(".")[-1]
            if short in self.mutating_helpers:
                for i in self.mutating_helpers[short]:
                    if i < len(c.args):
                        av = self.ev(c.args[i], content=False)
                        if av is not None:
                            nv = self.mutate(av, short, c)
                            if isinstance(c.args[i], ast.Name):
                                self.env[c.args[i].id] = nv
                            return nv
            return self.fresh()
        if isinstance(f, ast.Name):
            vals = []
            for a in c.args:
                vals.append((a, self.ev(a)))
            for k in c.keywords:
                vals.append((k.value, self.ev(k.value)))
            self._check_operands(c, vals)
            if f.id in self.callable_args:
                return self.fresh()  # assumption: distance callables allocate their result
            if f.id in self.mutating_helpers:
                res = None
                for i in self.mutating_helpers[f.id]:
                    if i < len(c.args):
                        av = self.ev(c.args[i], content=False)
                        if av is not None:
                            res = self.mutate(av, f.id, c)
                            if isinstance(c.args[i], ast.Name):
                                self.env[c.args[i].id] = res
                return res if res is not None else self.fresh()
            if f.id in ("any", "all", "len", "isinstance", "range", "float", "int", "bool", "str", "min", "max"):
                return None
            return self.fresh()
        for a in c.args:
            self.ev(a)
        return self.fresh()

    # ---- statements ---------------------------------------------------------------------------------------------------
    def assign(self, target: ast.AST, value: Optional[TV], node: ast.AST):
        if isinstance(target, ast.Name):
            self.env[target.id] = value
        elif isinstance(target, ast.Subscript):
            base = target.value
            bv = self.ev(base, content=False)
            self.ev_any(target.slice)
            if bv is not None:
                # the name through which the slice assignment is made: x[...][...] = v  /  x.T[...] = v  ->  x
                root = base
                while isinstance(root, ast.Subscript) or (isinstance(root, ast.Attribute) and root.attr in VIEW_ATTRS):
                    root = root.value
                nv = self.mutate(bv, src(root)[:40], node)
                if isinstance(root, ast.Name):
                    self.env[root.id] = nv
        elif isinstance(target, (ast.Tuple, ast.List)):
            for t in target.elts:
                self.assign(t, self.fresh() if value is None else TV(value.sid, value.ver, value.prov), node)
        elif isinstance(target, ast.Attribute):
            # ctx.attr = v : finalised by the driver
            pass


def _inplace_root(e: ast.AST) -> Optional[str]:
    """name through which a (chain of) in-place call(s) mutates: `x.a_().b_()` -> x"""
    if isinstance(e, ast.Name):
        return e.id
    if isinstance(e, ast.Call) and isinstance(e.func, ast.Attribute) and e.func.attr.endswith("_") and not e.func.attr.endswith("__") and e.func.attr not in NON_MUTATING_UNDERSCORE:
        return _inplace_root(e.func.value)
    # updates made through a view of x (x[...], x.T, x.transpose(..), x.diagonal(..)) are updates of x
    if isinstance(e, ast.Subscript):
        return _inplace_root(e.value)
    if isinstance(e, ast.Attribute) and e.attr in VIEW_ATTRS:
        return _inplace_root(e.value)
    if isinstance(e, ast.Call) and isinstance(e.func, ast.Attribute) and e.func.attr in VIEW_METHODS:
        return _inplace_root(e.func.value)
    return None


def mutating_params(fn: ast.FunctionDef) -> Set[int]:
    """indices of parameters on which the function calls an in-place method (receiver root is the parameter)"""
    params = [a.arg for a in fn.args.posonlyargs + fn.args.args]
    out: Set[int] = set()
    for n in ast.walk(fn):
        if isinstance(n, ast.Call) and isinstance(n.func, ast.Attribute) and n.func.attr.endswith("_") and not n.func.attr.endswith("__") and n.func.attr not in NON_MUTATING_UNDERSCORE:
            root = n.func.value
            while isinstance(root, (ast.Attribute, ast.Call, ast.Subscript)):
                root = root.func.value if isinstance(root, ast.Call) and isinstance(root.func, ast.Attribute) else (root.value if not isinstance(root, ast.Call) else root.func)
            if isinstance(root, ast.Name) and root.id in params:
                out.add(params.index(root.id))
    return out
