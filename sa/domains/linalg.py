"""Non-commutative affine forms over matrix symbols (C14-7, C01-7).

A value is a finite sum of terms  coefficient * F1 F2 ... Fk  where each factor is a matrix symbol, possibly transposed and / or
inverted.  Symbols are supplied by a classifier (provenance of sub-expressions: blocks of a joint covariance, a Cholesky factor, the
variational mean, ...).  The evaluator understands +, -, @, scalar multiples, transposes, `A.solve(B)` (= A^-1 B), the sum / product
linear-operator constructors and the usual transparent wrappers.  Normal form: products are flattened, sums are collected,
transposes are pushed to the factors (symmetric symbols absorb them).  Anything else evaluates to None ("not of this shape").
"""
from __future__ import annotations

import ast
from fractions import Fraction
from typing import Callable, Dict, Optional, Set, Tuple

from ..index import chain, src

Factor = Tuple[str, bool, bool]  # (symbol, transposed, inverted)
Term = Tuple[Factor, ...]

TRANSPARENT = {"to_dense", "to", "type", "type_as", "unsqueeze", "squeeze", "add_jitter", "evaluate_kernel", "contiguous", "detach", "double", "float",
               "evaluate", "clone", "expand", "expand_as", "requires_grad_"}
TRANSPARENT_FUNCS = {"to_linear_operator", "to_dense", "DenseLinearOperator", "delazify", "lazify"}
SUM_CTORS = {"SumLinearOperator", "PsdSumLinearOperator", "AddedDiagLinearOperator"}
PROD_CTORS = {"MatmulLinearOperator"}
ROOT_CTORS = {"RootLinearOperator", "LowRankRootLinearOperator"}
ADDED_DIAG_CTORS = {"LowRankRootAddedDiagLinearOperator"}


class Lin:
    def __init__(self, terms: Optional[Dict[Term, Fraction]] = None):
        self.terms: Dict[Term, Fraction] = {k: v for k, v in (terms or {}).items() if v != 0}

    @staticmethod
    def sym(name: str) -> "Lin":
        return Lin({((name, False, False),): Fraction(1)})

    def __add__(self, o: "Lin") -> "Lin":
        t = dict(self.terms)
        for k, v in o.terms.items():
            t[k] = t.get(k, Fraction(0)) + v
        return Lin(t)

    def scale(self, c: Fraction) -> "Lin":
        return Lin({k: v * c for k, v in self.terms.items()})

    def __matmul__(self, o: "Lin") -> "Lin":
        t: Dict[Term, Fraction] = {}
        for a, va in self.terms.items():
            for b, vb in o.terms.items():
                k = _cancel(a + b)
                t[k] = t.get(k, Fraction(0)) + va * vb
        return Lin(t)

    def transpose(self, symmetric: Set[str]) -> "Lin":
        t: Dict[Term, Fraction] = {}
        for a, v in self.terms.items():
            k = tuple((s, (not tr) if s not in symmetric else False, inv) for s, tr, inv in reversed(a))
            t[k] = t.get(k, Fraction(0)) + v
        return Lin(t)

    def inverse(self) -> Optional["Lin"]:
        if len(self.terms) != 1:
            return None
        (a, v), = self.terms.items()
        if v == 0:
            return None
        return Lin({tuple((s, tr, not inv) for s, tr, inv in reversed(a)): 1 / v})

    def show(self) -> str:
        def f(x):
            s, tr, inv = x
            return s + ("^-T" if tr and inv else "^T" if tr else "^-1" if inv else "")
        parts = []
        for a, v in sorted(self.terms.items(), key=lambda kv: str(kv[0])):
            parts.append(("+" if v > 0 else "-") + ("" if abs(v) == 1 else str(abs(v)) + "*") + " ".join(f(x) for x in a))
        return " ".join(parts) or "0"

    def __eq__(self, o):
        return isinstance(o, Lin) and self.terms == o.terms

    def __repr__(self):
        return self.show()


def _cancel(t: Term) -> Term:
    """A A^-1 -> identity (dropped) for adjacent factors of the same symbol and transposition"""
    out = []
    for f in t:
        if out and out[-1][0] == f[0] and out[-1][1] == f[1] and out[-1][2] != f[2]:
            out.pop()
        else:
            out.append(f)
    return tuple(out)


def term(*factors: str) -> Term:
    """term("KZX^T", "L^-T", "M") -> factors; suffixes ^T, ^-1, ^-T"""
    out = []
    for f in factors:
        tr = inv = False
        if f.endswith("^-T"):
            f, tr, inv = f[:-3], True, True
        elif f.endswith("^T"):
            f, tr = f[:-2], True
        elif f.endswith("^-1"):
            f, inv = f[:-3], True
        out.append((f, tr, inv))
    return tuple(out)


def lin(spec: Dict[Tuple[str, ...], int]) -> Lin:
    return Lin({term(*k): Fraction(v) for k, v in spec.items()})


def _is_last_two(args) -> bool:
    vals = []
    for a in args:
        if isinstance(a, ast.UnaryOp) and isinstance(a.op, ast.USub) and isinstance(a.operand, ast.Constant):
            vals.append(-a.operand.value)
        elif isinstance(a, ast.Constant):
            vals.append(a.value)
    return sorted(vals) == [-2, -1]


class LinEval:
    """classify(expr) -> symbol name | None.  `symmetric`: symbols equal to their transpose."""

    def __init__(self, classify: Callable[[ast.AST], Optional[str]], symmetric: Set[str]):
        self.classify = classify
        self.symmetric = symmetric
        self.env: Dict[str, Optional[Lin]] = {}

    def num(self, e: ast.AST) -> Optional[Fraction]:
        if isinstance(e, ast.Constant) and isinstance(e.value, (int, float)) and not isinstance(e.value, bool):
            return Fraction(e.value)
        if isinstance(e, ast.UnaryOp) and isinstance(e.op, ast.USub):
            v = self.num(e.operand)
            return None if v is None else -v
        return None

    def ev(self, e: ast.AST) -> Optional[Lin]:
        s = self.classify(e)
        if s is not None:
            return Lin.sym(s)
        if isinstance(e, ast.Name):
            return self.env.get(e.id)
        if isinstance(e, ast.UnaryOp) and isinstance(e.op, ast.USub):
            v = self.ev(e.operand)
            return None if v is None else v.scale(Fraction(-1))
        if isinstance(e, ast.BinOp):
            if isinstance(e.op, (ast.Add, ast.Sub)):
                a, b = self.ev(e.left), self.ev(e.right)
                if a is None or b is None:
                    return None
                return a + (b if isinstance(e.op, ast.Add) else b.scale(Fraction(-1)))
            if isinstance(e.op, ast.MatMult):
                a, b = self.ev(e.left), self.ev(e.right)
                return None if a is None or b is None else a @ b
            if isinstance(e.op, ast.Mult):
                for x, y in ((e.left, e.right), (e.right, e.left)):
                    c = self.num(x)
                    if c is not None:
                        v = self.ev(y)
                        return None if v is None else v.scale(c)
                return None
            return None
        if isinstance(e, ast.Subscript):
            # [..., 0, :] style selections of a stacked solve are not modelled
            return None
        if isinstance(e, ast.Attribute) and e.attr in ("mT", "T"):
            v = self.ev(e.value)
            return None if v is None else v.transpose(self.symmetric)
        if isinstance(e, ast.Call):
            fn = chain(e.func) or ""
            short = fn.split(".")[-1]
            if isinstance(e.func, ast.Attribute) and fn.split(".")[0] not in ("torch",):
                recv = e.func.value
                m = e.func.attr
                if m in TRANSPARENT:
                    return self.ev(recv)
                if m in ("transpose", "t") and (m == "t" or _is_last_two(e.args)):
                    v = self.ev(recv)
                    return None if v is None else v.transpose(self.symmetric)
                if m in ("matmul", "mm", "bmm", "__matmul__") and len(e.args) == 1:
                    a, b = self.ev(recv), self.ev(e.args[0])
                    return None if a is None or b is None else a @ b
                if m in ("mul", "mul_", "__mul__") and len(e.args) == 1:
                    c = self.num(e.args[0])
                    v = self.ev(recv)
                    return None if c is None or v is None else v.scale(c)
                if m in ("neg",):
                    v = self.ev(recv)
                    return None if v is None else v.scale(Fraction(-1))
                if m in ("add", "add_", "__add__", "sub", "sub_") and len(e.args) >= 1:
                    a, b = self.ev(recv), self.ev(e.args[0])
                    if a is None or b is None:
                        return None
                    alpha = [self.num(k.value) for k in e.keywords if k.arg == "alpha"]
                    if alpha:
                        if alpha[0] is None:
                            return None
                        b = b.scale(alpha[0])
                    return a + (b if m.startswith("add") or m == "__add__" else b.scale(Fraction(-1)))
                if m == "solve" and len(e.args) >= 1:
                    a, b = self.ev(recv), self.ev(e.args[0])
                    if a is None or b is None:
                        return None
                    ai = a.inverse()
                    if ai is None:
                        return None
                    r = ai @ b
                    if len(e.args) == 2:
                        l = self.ev(e.args[1])
                        return None if l is None else l @ r
                    return r
                if m in ("inv_matmul",) and len(e.args) >= 1:
                    a, b = self.ev(recv), self.ev(e.args[0])
                    ai = a.inverse() if a is not None else None
                    return None if ai is None or b is None else ai @ b
            if short in TRANSPARENT_FUNCS and e.args:
                return self.ev(e.args[0])
            if short in SUM_CTORS:
                out = Lin()
                for a in e.args:
                    v = self.ev(a)
                    if v is None:
                        return None
                    out = out + v
                return out
            if short in ROOT_CTORS and len(e.args) == 1:
                a = self.ev(e.args[0])
                return None if a is None else a @ a.transpose(self.symmetric)
            if short in ADDED_DIAG_CTORS and len(e.args) == 2:
                a, b = self.ev(e.args[0]), self.ev(e.args[1])
                return None if a is None or b is None else a + b
            if short in PROD_CTORS and len(e.args) == 2:
                a, b = self.ev(e.args[0]), self.ev(e.args[1])
                return None if a is None or b is None else a @ b
            if fn in ("torch.matmul", "torch.mm", "torch.bmm") and len(e.args) == 2:
                a, b = self.ev(e.args[0]), self.ev(e.args[1])
                return None if a is None or b is None else a @ b
            if fn in ("torch.add", "torch.sub") and len(e.args) >= 2:
                a, b = self.ev(e.args[0]), self.ev(e.args[1])
                if a is None or b is None:
                    return None
                alpha = [self.num(k.value) for k in e.keywords if k.arg == "alpha"]
                if alpha:
                    if alpha[0] is None:
                        return None
                    b = b.scale(alpha[0])
                return a + (b if fn == "torch.add" else b.scale(Fraction(-1)))
            if fn == "torch.addmm" and len(e.args) >= 3:
                c, a, b = self.ev(e.args[0]), self.ev(e.args[1]), self.ev(e.args[2])
                if a is None or b is None or c is None:
                    return None
                kw = {k.arg: self.num(k.value) for k in e.keywords}
                beta = kw.get("beta", Fraction(1))
                alpha = kw.get("alpha", Fraction(1))
                if beta is None or alpha is None:
                    return None
                return c.scale(beta) + (a @ b).scale(alpha)
        return None
