"""Affine forms with monomial coefficients (C02, C15, C08-3, C12-1).

An abstract value is a finite map   (source, monomial) -> rational coefficient   where `source` identifies a term
by provenance (decided by a caller-supplied classifier) and `monomial` is a sorted tuple of (symbol, exponent).
Supported syntax: + - unary minus, * and / by scalars (numbers or classified symbols), the tensor methods
add/sub/mul/div (and their in-place twins), transparent wrappers (sum, view, squeeze, ...), accumulation in `for`
loops (sources created inside a loop body are tagged with the loop's iterator).
"""
from __future__ import annotations

import ast
from fractions import Fraction
from typing import Callable, Dict, List, Optional, Tuple, Union

from ..index import AnalysisError, chain, src

Mono = Tuple[Tuple[str, int], ...]

TRANSPARENT = {"sum", "view", "squeeze", "unsqueeze", "reshape", "contiguous", "to", "type_as", "expand", "mean_", "clone",
               "evaluate_kernel", "to_dense", "float", "double", "detach"}


def mono_mul(a: Mono, b: Mono) -> Mono:
    d: Dict[str, int] = {}
    for s, e in a + b:
        d[s] = d.get(s, 0) + e
    return tuple(sorted((s, e) for s, e in d.items() if e != 0))


def mono_inv(a: Mono) -> Mono:
    return tuple((s, -e) for s, e in a)


class Affine:
    def __init__(self, terms: Optional[Dict[Tuple[str, Mono], Fraction]] = None):
        self.terms = {k: v for k, v in (terms or {}).items() if v != 0}

    @staticmethod
    def source(name: str) -> "Affine":
        return Affine({(name, ()): Fraction(1)})

    @staticmethod
    def zero() -> "Affine":
        return Affine({})

    def __add__(self, o: "Affine") -> "Affine":
        t = dict(self.terms)
        for k, v in o.terms.items():
            t[k] = t.get(k, Fraction(0)) + v
        return Affine(t)

    def __neg__(self) -> "Affine":
        return Affine({k: -v for k, v in self.terms.items()})

    def scale(self, c: Fraction, m: Mono = ()) -> "Affine":
        return Affine({(s, mono_mul(mm, m)): v * c for (s, mm), v in self.terms.items()})

    def tag(self, fn: Callable[[str], str]) -> "Affine":
        return Affine({(fn(s), m): v for (s, m), v in self.terms.items()})

    def sources(self) -> Dict[str, List[Tuple[Fraction, Mono]]]:
        out: Dict[str, List[Tuple[Fraction, Mono]]] = {}
        for (s, m), v in self.terms.items():
            out.setdefault(s, []).append((v, m))
        return out

    def coef(self, source: str) -> Optional[Tuple[Fraction, Mono]]:
        xs = self.sources().get(source)
        if not xs:
            return None
        if len(xs) > 1:
            return None
        return xs[0]

    def show(self) -> str:
        parts = []
        for (s, m), v in sorted(self.terms.items(), key=lambda t: t[0]):
            ms = "".join("*%s" % sy if e == 1 else ("/%s" % sy if e == -1 else "*%s^%d" % (sy, e)) for sy, e in m)
            parts.append("%s%s%s" % ("+" if v > 0 else "-", "" if abs(v) == 1 else str(abs(v)) + "*", s + ms))
        return " ".join(parts) or "0"

    def __repr__(self):
        return self.show()


class Scalar:
    """a scalar coefficient: rational * monomial"""

    def __init__(self, c: Fraction = Fraction(1), m: Mono = ()):
        self.c, self.m = Fraction(c), m

    def __mul__(self, o):
        return Scalar(self.c * o.c, mono_mul(self.m, o.m))

    def inv(self):
        if self.c == 0:
            raise AnalysisError("affine: division by zero")
        return Scalar(1 / self.c, mono_inv(self.m))


Value = Union[Affine, Scalar, None]


class AffineEval:
    """Evaluates expressions to Affine / Scalar values.  `classify(expr, env)` may return
         ('source', name) | ('symbol', name) | ('number', value) | ('alias', expr2) | None"""

    def __init__(self, classify: Callable[[ast.AST], Optional[tuple]]):
        self.classify = classify
        self.env: Dict[str, Value] = {}
        self.wrappers: List[str] = []
        self.unknown: List[str] = []

    def ev(self, e: ast.AST) -> Value:
        c = self.classify(e)
        if c is not None:
            if c[0] == "source":
                return Affine.source(c[1])
            if c[0] == "symbol":
                return Scalar(1, ((c[1], 1),))
            if c[0] == "number":
                return Scalar(Fraction(c[1]))
            if c[0] == "alias":
                return self.ev(c[1])
            if c[0] == "zero":
                return Affine.zero()
        if isinstance(e, ast.Name):
            if e.id in self.env:
                return self.env[e.id]
            return None
        if isinstance(e, ast.Constant) and isinstance(e.value, (int, float)) and not isinstance(e.value, bool):
            return Scalar(Fraction(e.value))
        if isinstance(e, ast.UnaryOp) and isinstance(e.op, ast.USub):
            v = self.ev(e.operand)
            if isinstance(v, Affine):
                return -v
            if isinstance(v, Scalar):
                return Scalar(-v.c, v.m)
            return None
        if isinstance(e, ast.BinOp) and isinstance(e.op, ast.Pow):
            b = self.ev(e.left)
            if isinstance(b, Scalar) and isinstance(e.right, ast.Constant) and isinstance(e.right.value, int):
                k = e.right.value
                return Scalar(b.c ** k, tuple((s_, x * k) for s_, x in b.m))
            return None
        if isinstance(e, ast.BinOp):
            return self.binop(e.op, self.ev(e.left), self.ev(e.right), e)
        if isinstance(e, ast.Call) and isinstance(e.func, ast.Attribute):
            meth = e.func.attr
            recv = self.ev(e.func.value)
            if meth in ("add", "add_", "sub", "sub_", "mul", "mul_", "div", "div_", "__add__") and len(e.args) >= 1:
                arg = self.ev(e.args[0])
                # torch's add(x, alpha=a)
                alpha = None
                for k in e.keywords:
                    if k.arg == "alpha":
                        alpha = self.ev(k.value)
                if alpha is not None:
                    arg = self.binop(ast.Mult(), arg, alpha, e)
                op = {"add": ast.Add, "add_": ast.Add, "__add__": ast.Add, "sub": ast.Sub, "sub_": ast.Sub, "mul": ast.Mult, "mul_": ast.Mult, "div": ast.Div, "div_": ast.Div}[meth]()
                return self.binop(op, recv, arg, e)
            if meth in TRANSPARENT and isinstance(recv, (Affine, Scalar)):
                self.wrappers.append(meth)
                return recv
            if meth == "neg" and isinstance(recv, Affine):
                return -recv
            return None
        if isinstance(e, ast.Call) and chain(e.func) in ("torch.add", "torch.sub") and len(e.args) == 2:
            op = ast.Add() if chain(e.func) == "torch.add" else ast.Sub()
            return self.binop(op, self.ev(e.args[0]), self.ev(e.args[1]), e)
        if isinstance(e, ast.Call) and chain(e.func) in ("sum",) and len(e.args) == 1:
            return self.ev(e.args[0])
        return None

    def binop(self, op, a: Value, b: Value, node) -> Value:
        if isinstance(op, (ast.Add, ast.Sub)):
            if isinstance(a, Affine) and isinstance(b, Affine):
                return a + (b if isinstance(op, ast.Add) else -b)
            if isinstance(a, Affine) and isinstance(b, Scalar) and b.c == 0:
                return a
            if isinstance(b, Affine) and isinstance(a, Scalar) and a.c == 0:
                return b if isinstance(op, ast.Add) else -b
            if isinstance(a, Affine) and isinstance(b, Scalar):
                k = Affine({("1", b.m): b.c})
                return a + (k if isinstance(op, ast.Add) else -k)
            if isinstance(b, Affine) and isinstance(a, Scalar):
                k = Affine({("1", a.m): a.c})
                return k + (b if isinstance(op, ast.Add) else -b)
            if a is None or b is None:
                if isinstance(a, Affine) or isinstance(b, Affine):
                    self.unknown.append("unclassified operand in `%s`" % src(node)[:80])
                    other = Affine.source("?(%s)" % src(node.right if a is not None and hasattr(node, "right") else getattr(node, "left", node))[:40]) if hasattr(node, "left") else Affine.source("?")
                    known = a if isinstance(a, Affine) else b
                    if isinstance(a, Affine):
                        return known + (other if isinstance(op, ast.Add) else -other)
                    return other + (known if isinstance(op, ast.Add) else -known)
                return None
            if isinstance(a, Scalar) and isinstance(b, Scalar):
                return None  # sums of scalars are not needed
            return None
        if isinstance(op, ast.Mult):
            if isinstance(a, Affine) and isinstance(b, Scalar):
                return a.scale(b.c, b.m)
            if isinstance(b, Affine) and isinstance(a, Scalar):
                return b.scale(a.c, a.m)
            if isinstance(a, Scalar) and isinstance(b, Scalar):
                return a * b
            if isinstance(a, Affine) or isinstance(b, Affine):
                self.unknown.append("product with an unclassified factor in `%s`" % src(node)[:80])
                k = a if isinstance(a, Affine) else b
                return k.scale(Fraction(1), (("?(%s)" % src(node)[:30], 1),))
            return None
        if isinstance(op, ast.Div):
            if isinstance(a, Affine) and isinstance(b, Scalar):
                i = b.inv()
                return a.scale(i.c, i.m)
            if isinstance(a, Scalar) and isinstance(b, Scalar):
                return a * b.inv()
            if isinstance(a, Affine):
                self.unknown.append("division by an unclassified value in `%s`" % src(node)[:80])
                return a.scale(Fraction(1), (("?(%s)" % src(node)[:30], -1),))
            return None
        return None
