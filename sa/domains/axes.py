"""Axis-order domain (C11-3 from_batch_mvn): evaluates a chain of permute / transpose / movedim / unsqueeze / squeeze calls on the
list of axis labels [0, 1, ..., n-1] for concrete small ranks, with the integer sub-expressions (range bounds, dims) evaluated by a
tiny arithmetic interpreter over a given binding of names.  No repository code is executed: the semantics of the five tensor
methods on axis *labels* is implemented here."""
from __future__ import annotations

import ast
from typing import Dict, List, Optional, Sequence


class AxesUnknown(Exception):
    pass


def ieval(e: ast.AST, env: Dict[str, int]) -> int:
    if isinstance(e, ast.Constant) and isinstance(e.value, int) and not isinstance(e.value, bool):
        return e.value
    if isinstance(e, ast.Name):
        if e.id in env:
            return env[e.id]
        raise AxesUnknown("unbound name %s" % e.id)
    if isinstance(e, ast.UnaryOp) and isinstance(e.op, ast.USub):
        return -ieval(e.operand, env)
    if isinstance(e, ast.BinOp) and isinstance(e.op, (ast.Add, ast.Sub, ast.Mult)):
        a, b = ieval(e.left, env), ieval(e.right, env)
        return a + b if isinstance(e.op, ast.Add) else a - b if isinstance(e.op, ast.Sub) else a * b
    if isinstance(e, ast.IfExp):
        return ieval(e.body, env) if beval(e.test, env) else ieval(e.orelse, env)
    key = ast.dump(e)
    if key in env:
        return env[key]  # caller-supplied value of an opaque expression (x.dim(), len(x.batch_shape))
    raise AxesUnknown("integer expression %s" % ast.dump(e)[:60])


def beval(t: ast.AST, env: Dict[str, int]) -> bool:
    if isinstance(t, ast.Compare) and len(t.ops) == 1:
        a, b = ieval(t.left, env), ieval(t.comparators[0], env)
        op = t.ops[0]
        return {ast.Lt: a < b, ast.LtE: a <= b, ast.Gt: a > b, ast.GtE: a >= b, ast.Eq: a == b, ast.NotEq: a != b}[type(op)]
    raise AxesUnknown("test")


def dims(args: Sequence[ast.AST], env: Dict[str, int]) -> List[int]:
    out: List[int] = []
    for a in args:
        if isinstance(a, ast.Starred):
            v = a.value
            if isinstance(v, ast.Call) and isinstance(v.func, ast.Name) and v.func.id == "range":
                r = [ieval(x, env) for x in v.args]
                out += list(range(*r))
            else:
                raise AxesUnknown("starred argument")
        else:
            out.append(ieval(a, env))
    return out


def apply_chain(e: ast.AST, base_is, n: int, env: Dict[str, int]) -> Optional[List[int]]:
    """axis labels of expression e, where base_is(node) recognises the tensor whose axes are [0..n-1]"""
    if base_is(e):
        return list(range(n))
    if isinstance(e, ast.Call) and isinstance(e.func, ast.Attribute):
        cur = apply_chain(e.func.value, base_is, n, env)
        if cur is None:
            return None
        m = e.func.attr
        k = len(cur)
        nz = lambda d: d % k
        if m == "permute":
            p = dims(e.args[0].elts if len(e.args) == 1 and isinstance(e.args[0], (ast.Tuple, ast.List)) else e.args, env)
            if sorted(nz(d) for d in p) != list(range(k)):
                raise AxesUnknown("permute arguments %s are not a permutation of %d axes" % (p, k))
            return [cur[nz(d)] for d in p]
        if m in ("transpose", "swapaxes", "swapdims"):
            a, b = (nz(d) for d in dims(e.args, env))
            cur = list(cur)
            cur[a], cur[b] = cur[b], cur[a]
            return cur
        if m in ("movedim", "moveaxis"):
            a, b = (nz(d) for d in dims(e.args, env))
            cur = list(cur)
            x = cur.pop(a)
            cur.insert(b, x)
            return cur
        if m in ("contiguous", "clone", "to", "detach"):
            return cur
        if m == "mT":
            cur = list(cur)
            cur[-1], cur[-2] = cur[-2], cur[-1]
            return cur
        raise AxesUnknown("method %s" % m)
    if isinstance(e, ast.Attribute) and e.attr == "mT":
        cur = apply_chain(e.value, base_is, n, env)
        if cur is None:
            return None
        cur = list(cur)
        cur[-1], cur[-2] = cur[-2], cur[-1]
        return cur
    return None
