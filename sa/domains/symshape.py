"""Symbolic trailing shapes (C06-10): block assembly of the derivative kernels.

A tensor value is the tuple of its *trailing* (non-batch) dimensions, each a polynomial with integer coefficients in the size symbols
of the call (n1 = rows of x1, n2 = rows of x2, d = input dimension).  The batch prefix is implicit: `*batch_shape` arguments are dropped,
`[1] * (n_batch_dims + k)` prefixes of repeat lists are counted.  The evaluator understands the constructors and shape operations the
derivative kernels are written in (zeros/ones/eye, view/reshape with element-count conservation, transpose, unsqueeze, repeat,
elementwise arithmetic with broadcasting, KroneckerProductLinearOperator, covar_dist) and checks
  * every elementwise operation: the operand shapes broadcast for ALL sizes (dimension polynomials identical, or 1),
  * every view/reshape: the element count is conserved identically,
  * every block store `K[..., a:b, c:e] = X`: X has the shape of its slot identically.
Anything else evaluates to None (unknown) and is not judged.
"""
from __future__ import annotations

import ast
from typing import Dict, List, Optional, Tuple, Union

from ..index import chain, src

Mono = Tuple[Tuple[str, int], ...]


class Poly:
    def __init__(self, terms: Optional[Dict[Mono, int]] = None):
        self.terms: Dict[Mono, int] = {k: v for k, v in (terms or {}).items() if v != 0}

    @staticmethod
    def const(c) -> "Poly":
        return Poly({(): c if not isinstance(c, bool) and not isinstance(c, float) else int(c)})

    def scale(self, c) -> "Poly":
        return Poly({k: v * c for k, v in self.terms.items()})

    @staticmethod
    def sym(s: str) -> "Poly":
        return Poly({((s, 1),): 1})

    def __add__(self, o: "Poly") -> "Poly":
        t = dict(self.terms)
        for k, v in o.terms.items():
            t[k] = t.get(k, 0) + v
        return Poly(t)

    def __neg__(self) -> "Poly":
        return Poly({k: -v for k, v in self.terms.items()})

    def __sub__(self, o: "Poly") -> "Poly":
        return self + (-o)

    def __mul__(self, o: "Poly") -> "Poly":
        t: Dict[Mono, int] = {}
        for a, va in self.terms.items():
            for b, vb in o.terms.items():
                d: Dict[str, int] = {}
                for s, p in a + b:
                    d[s] = d.get(s, 0) + p
                k = tuple(sorted(d.items()))
                t[k] = t.get(k, 0) + va * vb
        return Poly(t)

    def __eq__(self, o) -> bool:
        return isinstance(o, Poly) and self.terms == o.terms

    def __hash__(self):
        return hash(tuple(sorted(self.terms.items())))

    def is_const(self, c: Optional[int] = None) -> bool:
        if not self.terms:
            return c is None or c == 0
        if set(self.terms) != {()}:
            return False
        return c is None or self.terms[()] == c

    def show(self) -> str:
        if not self.terms:
            return "0"
        parts = []
        for k, v in sorted(self.terms.items(), key=lambda kv: (len(kv[0]), kv[0])):
            m = "*".join(s if p == 1 else "%s^%d" % (s, p) for s, p in k)
            parts.append(("%d" % v if not m else (m if v == 1 else ("-" + m if v == -1 else "%d*%s" % (v, m)))))
        return " + ".join(parts).replace("+ -", "- ")

    __repr__ = show


Shape = Tuple[Poly, ...]
ONE = Poly.const(1)

ELEMENTWISE_METHODS = {"div", "div_", "mul", "mul_", "add", "add_", "sub", "sub_", "pow", "pow_", "exp", "exp_", "neg", "sqrt", "abs", "clamp", "clamp_min",
                       "contiguous", "clone", "detach", "to", "type_as", "double", "float", "sin", "cos", "square", "reciprocal", "log"}
SAME_SHAPE_FUNCS = {"torch.exp", "torch.sqrt", "torch.abs", "torch.neg", "torch.sin", "torch.cos", "torch.square", "torch.log"}
CONSTRUCTORS = {"torch.zeros", "torch.ones", "torch.eye", "torch.empty", "torch.randn", "torch.rand", "torch.full"}


def show_shape(s: Optional[Shape]) -> str:
    return "?" if s is None else "(" + ", ".join(p.show() for p in s) + ")"


class ShapeEval:
    def __init__(self, x1: str, x2: str, batch_names=("batch_shape",), nbatch_names=("n_batch_dims",)):
        self.env: Dict[str, Union[Shape, Poly, None]] = {}
        self.x1, self.x2 = x1, x2
        self.batch_names = set(batch_names)
        self.nbatch_names = set(nbatch_names)
        self.problems: List[Tuple[int, str]] = []
        self.checked = 0
        self.env[x1] = (Poly.sym("n1"), Poly.sym("d"))
        self.env[x2] = (Poly.sym("n2"), Poly.sym("d"))

    # ---- integers ------------------------------------------------------------------------------------------------
    def num(self, e: ast.AST) -> Optional[Poly]:
        if isinstance(e, ast.Constant) and isinstance(e.value, int) and not isinstance(e.value, bool):
            return Poly.const(e.value)
        if isinstance(e, ast.Name):
            v = self.env.get(e.id)
            return v if isinstance(v, Poly) else None
        if isinstance(e, ast.UnaryOp) and isinstance(e.op, ast.USub):
            v = self.num(e.operand)
            return None if v is None else -v
        if isinstance(e, ast.BinOp) and isinstance(e.op, (ast.Add, ast.Sub, ast.Mult)):
            a, b = self.num(e.left), self.num(e.right)
            if a is None or b is None:
                return None
            return a + b if isinstance(e.op, ast.Add) else (a - b if isinstance(e.op, ast.Sub) else a * b)
        if isinstance(e, ast.Call) and isinstance(e.func, ast.Attribute) and e.func.attr == "size" and len(e.args) == 1:
            s = self.ev(e.func.value)
            k = self.num(e.args[0])
            if s is not None and k is not None and k.is_const():
                i = k.terms.get((), 0)
                if -len(s) <= i < 0:
                    return s[i]
        if isinstance(e, ast.Subscript) and isinstance(e.value, ast.Attribute) and e.value.attr == "shape":
            s = self.ev(e.value.value)
            k = self.num(e.slice)
            if s is not None and k is not None and k.is_const():
                i = k.terms.get((), 0)
                if -len(s) <= i < 0:
                    return s[i]
        return None

    def is_batch_star(self, a: ast.AST) -> bool:
        return isinstance(a, ast.Starred) and isinstance(a.value, ast.Name) and a.value.id in self.batch_names

    def dims_from_args(self, args) -> Optional[Shape]:
        """(*batch_shape, a, b, c) or ((a, b)) or ([..]) -> trailing dims"""
        if len(args) == 1 and isinstance(args[0], (ast.Tuple, ast.List)):
            args = list(args[0].elts)
        out = []
        for a in args:
            if self.is_batch_star(a):
                continue
            if isinstance(a, ast.Starred):
                return None
            v = self.num(a)
            if v is None:
                return None
            out.append(v)
        return tuple(out)

    # ---- tensors -------------------------------------------------------------------------------------------------
    def problem(self, node: ast.AST, text: str):
        self.problems.append((getattr(node, "lineno", 0), text))

    def broadcast(self, a: Optional[Shape], b: Optional[Shape], node: ast.AST) -> Optional[Shape]:
        if a is None or b is None:
            return None
        self.checked += 1
        n = max(len(a), len(b))
        pa = (ONE,) * (n - len(a)) + tuple(a)
        pb = (ONE,) * (n - len(b)) + tuple(b)
        out = []
        for i, (x, y) in enumerate(zip(pa, pb)):
            if x == y or y.is_const(1):
                out.append(x)
            elif x.is_const(1):
                out.append(y)
            else:
                self.problem(node, "`%s`: operand shapes %s and %s broadcast only for special sizes (dimension %d: %s vs %s)" % (
                    " ".join(src(node).split())[:60], show_shape(a), show_shape(b), i - n, x.show(), y.show()))
                return None
        return tuple(out)

    def ev(self, e: ast.AST) -> Optional[Shape]:
        if isinstance(e, ast.Name):
            v = self.env.get(e.id)
            return v if isinstance(v, tuple) else None
        if isinstance(e, ast.Attribute):
            if e.attr in ("mT", "T"):
                s = self.ev(e.value)
                return None if s is None or len(s) < 2 else s[:-2] + (s[-1], s[-2])
            if e.attr == "lengthscale" and chain(e.value) == "self":
                return (ONE, Poly.sym("d"))
            return None
        if isinstance(e, ast.UnaryOp):
            return self.ev(e.operand)
        if isinstance(e, ast.BinOp):
            if isinstance(e.op, ast.Pow):
                return self.ev(e.left)
            if isinstance(e.op, ast.MatMult):
                a, b = self.ev(e.left), self.ev(e.right)
                if a is None or b is None or len(a) < 2 or len(b) < 2:
                    return None
                self.checked += 1
                if a[-1] != b[-2]:
                    self.problem(e, "`%s`: inner dimensions %s and %s differ" % (" ".join(src(e).split())[:60], a[-1].show(), b[-2].show()))
                    return None
                return a[:-1] + (b[-1],)
            a, b = self.ev(e.left), self.ev(e.right)
            la, lb = self.is_scalar(e.left), self.is_scalar(e.right)
            if la and not lb:
                return b
            if lb and not la:
                return a
            return self.broadcast(a, b, e)
        if isinstance(e, ast.Call):
            fn = chain(e.func) or ""
            if fn in CONSTRUCTORS:
                return self.dims_from_args(e.args)
            if fn in SAME_SHAPE_FUNCS and e.args:
                return self.ev(e.args[0])
            if fn == "torch.transpose" and len(e.args) == 3:
                return self.swap(self.ev(e.args[0]), e.args[1], e.args[2])
            if fn.split(".")[-1].startswith("postprocess") and e.args:
                return self.ev(e.args[0])
            if fn.split(".")[-1] == "KroneckerProductLinearOperator" and len(e.args) >= 2:
                shapes = [self.ev(a) for a in e.args]
                if any(s is None or len(s) < 2 for s in shapes):
                    return None
                r, c = ONE, ONE
                for s in shapes:
                    r, c = r * s[-2], c * s[-1]
                return (r, c)
            if isinstance(e.func, ast.Attribute):
                m, recv = e.func.attr, e.func.value
                if m == "covar_dist" and len(e.args) >= 2:
                    a, b = self.ev(e.args[0]), self.ev(e.args[1])
                    return None if a is None or b is None or len(a) < 2 or len(b) < 2 else (a[-2], b[-2])
                s = self.ev(recv)
                if m in ("to_dense", "evaluate", "contiguous", "clone", "detach", "to", "type_as"):
                    return s
                if m in ELEMENTWISE_METHODS:
                    if e.args and not self.is_scalar(e.args[0]):
                        return self.broadcast(s, self.ev(e.args[0]), e)
                    return s
                if m in ("transpose",) and len(e.args) == 2:
                    return self.swap(s, e.args[0], e.args[1])
                if m == "t" and not e.args:
                    return None if s is None or len(s) < 2 else s[:-2] + (s[-1], s[-2])
                if m == "unsqueeze" and len(e.args) == 1 and s is not None:
                    k = self.num(e.args[0])
                    if k is not None and k.is_const():
                        i = k.terms.get((), 0)
                        if i < 0 and -i <= len(s) + 1:
                            pos = len(s) + 1 + i
                            return s[:pos] + (ONE,) + s[pos:]
                    return None
                if m in ("view", "reshape"):
                    new = self.dims_from_args(e.args)
                    if new is None:
                        return None
                    has_batch = any(self.is_batch_star(a) for a in (e.args[0].elts if len(e.args) == 1 and isinstance(e.args[0], (ast.Tuple, ast.List)) else e.args))
                    if s is not None and (has_batch or True):
                        self.checked += 1
                        pa, pb = ONE, ONE
                        for x in s:
                            pa = pa * x
                        for x in new:
                            pb = pb * x
                        if pa != pb:
                            self.problem(e, "`%s`: %s has %s elements per batch entry, the new shape %s has %s" % (" ".join(src(e).split())[:60], show_shape(s), pa.show(), show_shape(new), pb.show()))
                            return None
                    return new
                if m == "repeat":
                    return self.repeat(s, e)
        return None

    def is_scalar(self, e: ast.AST) -> bool:
        if isinstance(e, ast.Constant) and isinstance(e.value, (int, float)):
            return True
        if isinstance(e, ast.Name) and (isinstance(self.env.get(e.id), Poly) or self.env.get(e.id, "tensor?") == "scalar"):
            return True
        if isinstance(e, ast.UnaryOp):
            return self.is_scalar(e.operand)
        if isinstance(e, ast.BinOp):
            return self.is_scalar(e.left) and self.is_scalar(e.right)
        if isinstance(e, ast.Call) and (chain(e.func) or "").startswith("math."):
            return True
        return False

    def swap(self, s: Optional[Shape], i: ast.AST, j: ast.AST) -> Optional[Shape]:
        a, b = self.num(i), self.num(j)
        if s is None or a is None or b is None or not a.is_const() or not b.is_const():
            return None
        x, y = a.terms.get((), 0), b.terms.get((), 0)
        if not (-len(s) <= x < 0 and -len(s) <= y < 0):
            return None
        l = list(s)
        l[x], l[y] = l[y], l[x]
        return tuple(l)

    def repeat(self, s: Optional[Shape], e: ast.Call) -> Optional[Shape]:
        if s is None:
            return None
        args = e.args
        if len(args) == 1 and isinstance(args[0], (ast.List, ast.Tuple)):
            args = list(args[0].elts)
        extra_ones = 0
        mult: List[Poly] = []
        for a in args:
            if self.is_batch_star(a):
                continue
            if isinstance(a, ast.Starred):
                # *([1] * (n_batch_dims + k))
                v = a.value
                if isinstance(v, ast.BinOp) and isinstance(v.op, ast.Mult) and isinstance(v.left, ast.List) and len(v.left.elts) == 1 and isinstance(v.left.elts[0], ast.Constant) and v.left.elts[0].value == 1:
                    cnt = v.right
                    k = 0
                    if isinstance(cnt, ast.Name) and cnt.id in self.nbatch_names:
                        k = 0
                    elif isinstance(cnt, ast.BinOp) and isinstance(cnt.op, ast.Add) and isinstance(cnt.left, ast.Name) and cnt.left.id in self.nbatch_names and isinstance(cnt.right, ast.Constant):
                        k = cnt.right.value
                    else:
                        return None
                    extra_ones += k
                    continue
                return None
            v = self.num(a)
            if v is None:
                return None
            mult.append(v)
        full = [ONE] * extra_ones + mult
        self.checked += 1
        if len(full) != len(s):
            self.problem(e, "`%s`: %d repeat factors for the %d trailing dimensions %s" % (" ".join(src(e).split())[:60], len(full), len(s), show_shape(s)))
            return None
        return tuple(x * y for x, y in zip(s, full))

    # ---- statements ----------------------------------------------------------------------------------------------
    def assign(self, st: ast.Assign):
        v = st.value
        for t in st.targets:
            if isinstance(t, ast.Name):
                n = self.num(v)
                if n is not None:
                    self.env[t.id] = n
                else:
                    self.env[t.id] = self.ev(v)
            elif isinstance(t, ast.Tuple) and all(isinstance(x, ast.Name) for x in t.elts):
                # n1, d = x1.shape[-2:]
                if isinstance(v, ast.Subscript) and isinstance(v.value, ast.Attribute) and v.value.attr == "shape" and isinstance(v.slice, ast.Slice) and v.slice.upper is None:
                    s = self.ev(v.value.value)
                    lo = self.num(v.slice.lower) if v.slice.lower is not None else None
                    if s is not None and lo is not None and lo.is_const() and -lo.terms.get((), 0) == len(t.elts) <= len(s):
                        for x, d in zip(t.elts, s[-len(t.elts):]):
                            self.env[x.id] = d
                        continue
                for x in t.elts:
                    self.env[x.id] = None
            elif isinstance(t, ast.Subscript) and isinstance(t.value, ast.Name):
                base = self.env.get(t.value.id)
                if not isinstance(base, tuple):
                    continue
                idx = t.slice.elts if isinstance(t.slice, ast.Tuple) else [t.slice]
                idx = [i for i in idx if not (isinstance(i, ast.Constant) and i.value is Ellipsis)]
                if len(idx) > len(base) or not all(isinstance(i, ast.Slice) for i in idx):
                    continue
                dims = list(base[-len(idx):]) if idx else []
                slot = []
                ok = True
                for sl, dim in zip(idx, dims):
                    lo = self.num(sl.lower) if sl.lower is not None else Poly.const(0)
                    hi = self.num(sl.upper) if sl.upper is not None else dim
                    if lo is None or hi is None or sl.step is not None:
                        ok = False
                        break
                    slot.append(hi - lo)
                if not ok:
                    continue
                val = self.ev(v)
                if val is None:
                    continue
                self.checked += 1
                slot_t = tuple(slot)
                vv = val[-len(slot_t):] if len(val) >= len(slot_t) else (ONE,) * (len(slot_t) - len(val)) + val
                bad = [i for i, (a, b) in enumerate(zip(vv, slot_t)) if not (a == b or a.is_const(1))]
                if bad:
                    self.problem(st, "block `%s` has the slot shape %s but receives a value of shape %s" % (" ".join(src(t).split())[:50], show_shape(slot_t), show_shape(val)))
