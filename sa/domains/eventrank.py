"""Event ranks (C08-13): how many trailing (non-batch) dimensions a tensor value has.

Batch dimensions broadcast from the right, so two batched tensors can only be combined elementwise when they have the same number of
trailing event dimensions: a parameter registered as  *batch_shape x 1  (event rank 1) meets an  n1 x n2  distance matrix (event
rank 2) correctly only after one `unsqueeze(-1)`; with a diagonal (event rank 1) it must stay as it is.  The evaluator assigns
  * parameters (through their constrained property) the event rank of their registration,
  * the kernel inputs rank 2, `covar_dist(..., diag=D)` rank 1 / 2 depending on D on the current path, reductions / matmul their usual
    effect,
and reports an elementwise combination of a parameter-derived operand with a data-derived operand whose known ranks differ.  Anything
it does not understand has rank None and is not judged.
"""
from __future__ import annotations

import ast
from typing import Callable, Dict, List, Optional, Tuple

from ..index import chain, src

ELEMENTWISE = {"div", "div_", "mul", "mul_", "add", "add_", "sub", "sub_", "pow", "pow_"}
UNARY = {"exp", "exp_", "sqrt", "neg", "abs", "clamp", "clamp_min", "clamp_min_", "clamp_", "clone", "contiguous", "to", "type_as", "double", "float", "log", "sin", "cos",
         "square", "reciprocal", "detach", "sigmoid", "tanh", "cosh", "sinh", "log1p", "expm1"}


class Val:
    __slots__ = ("rank", "param", "data")

    def __init__(self, rank: Optional[int], param: bool = False, data: bool = False):
        self.rank, self.param, self.data = rank, param, data

    def __repr__(self):
        return "Val(%s,%s,%s)" % (self.rank, "P" if self.param else "", "D" if self.data else "")


class RankEval:
    def __init__(self, self_name: str, param_rank: Callable[[str], Optional[int]], diag: Optional[bool], diag_names=("diag",),
                 call_method: Optional[Callable[[str, List[Optional["Val"]], ast.Call], Optional["Val"]]] = None,
                 call_function: Optional[Callable[[str, List[Optional["Val"]], ast.Call], Optional["Val"]]] = None):
        self.sn = self_name
        self.param_rank = param_rank
        self.diag = diag
        self.diag_names = set(diag_names)
        self.env: Dict[str, Optional[Val]] = {}
        self.problems: List[Tuple[int, str]] = []
        self.checked = 0
        self.call_method = call_method
        self.call_function = call_function

    def truth(self, e: ast.AST) -> Optional[bool]:
        if isinstance(e, ast.Constant) and isinstance(e.value, bool):
            return e.value
        if isinstance(e, ast.Name) and e.id in self.diag_names:
            return self.diag
        if isinstance(e, ast.Name) and e.id in ("last_dim_is_batch",):
            return False  # the deprecated additive-structure mode is not modelled
        if isinstance(e, ast.Call) and isinstance(e.func, ast.Attribute) and e.func.attr == "get" and e.args and isinstance(e.args[0], ast.Constant) and e.args[0].value == "last_dim_is_batch":
            return False
        if isinstance(e, ast.UnaryOp) and isinstance(e.op, ast.Not):
            t = self.truth(e.operand)
            return None if t is None else not t
        return None

    def combine(self, a: Optional[Val], b: Optional[Val], node: ast.AST) -> Optional[Val]:
        if a is None and b is None:
            return None
        if a is None or b is None:
            k = a or b
            return Val(k.rank, k.param, k.data)
        out = Val(None, a.param or b.param, a.data or b.data)
        if a.rank is not None and b.rank is not None:
            # scalars (rank 0 without batch) and un-batched python numbers do not constrain
            pure_p, pure_d = (a.param and not a.data), (b.data and not b.param)
            pure_p2, pure_d2 = (b.param and not b.data), (a.data and not a.param)
            if (pure_p and pure_d) or (pure_p2 and pure_d2):
                self.checked += 1
                if a.rank != b.rank:
                    p, d = (a, b) if pure_p and pure_d else (b, a)
                    self.problems.append((getattr(node, "lineno", 0), "`%s`: a parameter-derived operand with %d trailing event dimension(s) meets a data-derived operand with %d%s: the parameter's batch dimensions line up with the data's %s dimension" % (
                        " ".join(src(node).split())[:60], p.rank, d.rank, "" if self.diag is None else (" (diag=%s path)" % self.diag), "row" if d.rank > p.rank else "batch")))
            out.rank = max(a.rank, b.rank)
        else:
            out.rank = None
        return out

    def ev(self, e: ast.AST) -> Optional[Val]:
        if isinstance(e, ast.Constant):
            return None
        if isinstance(e, ast.Name):
            return self.env.get(e.id)
        if isinstance(e, ast.Attribute):
            if isinstance(e.value, ast.Name) and e.value.id == self.sn:
                r = self.param_rank(e.attr)
                return Val(r, param=True) if r is not None else None
            if e.attr in ("mT", "T"):
                return self.ev(e.value)
            return None
        if isinstance(e, ast.UnaryOp):
            return self.ev(e.operand)
        if isinstance(e, ast.IfExp):
            t = self.truth(e.test)
            if t is True:
                return self.ev(e.body)
            if t is False:
                return self.ev(e.orelse)
            a, b = self.ev(e.body), self.ev(e.orelse)
            if a is not None and b is not None and a.rank == b.rank:
                return Val(a.rank, a.param or b.param, a.data or b.data)
            return Val(None, bool(a and a.param) or bool(b and b.param), bool(a and a.data) or bool(b and b.data)) if (a or b) else None
        if isinstance(e, ast.BinOp):
            if isinstance(e.op, ast.MatMult):
                a, b = self.ev(e.left), self.ev(e.right)
                return Val(2, bool(a and a.param) or bool(b and b.param), bool(a and a.data) or bool(b and b.data))
            return self.combine(self.ev(e.left), self.ev(e.right), e)
        if isinstance(e, ast.Subscript):
            v = self.ev(e.value)
            if v is None or v.rank is None:
                return v
            idx = e.slice.elts if isinstance(e.slice, ast.Tuple) else [e.slice]
            if any(isinstance(i, ast.Constant) and i.value is Ellipsis for i in idx):
                after = idx[[k for k, i in enumerate(idx) if isinstance(i, ast.Constant) and i.value is Ellipsis][0] + 1:]
                r = v.rank
                for i in after:
                    if isinstance(i, ast.Constant) and i.value is None:
                        r += 1
                    elif isinstance(i, ast.Slice):
                        pass
                    elif isinstance(i, (ast.Constant, ast.UnaryOp)):
                        r -= 1
                    else:
                        return Val(None, v.param, v.data)
                return Val(r, v.param, v.data)
            return Val(None, v.param, v.data)
        if isinstance(e, ast.Call):
            fn = chain(e.func) or ""
            if fn.startswith("torch."):
                short = fn.split(".")[-1]
                if short == "eye":
                    return Val(2, data=True)  # an un-batched identity matrix: two trailing (matrix) dimensions, nothing in front
                if short in UNARY and e.args:
                    return self.ev(e.args[0])
                if short in ("matmul", "bmm", "mm") and len(e.args) == 2:
                    a, b = self.ev(e.args[0]), self.ev(e.args[1])
                    ra = [x.rank for x in (a, b) if x is not None and x.rank is not None]
                    return Val(max(ra + [2]) if len(ra) == 2 else None, bool(a and a.param) or bool(b and b.param), bool(a and a.data) or bool(b and b.data))
                if short in ("add", "sub", "mul", "div", "pow") and len(e.args) >= 2:
                    return self.combine(self.ev(e.args[0]), self.ev(e.args[1]), e)
                return None
            if isinstance(e.func, ast.Attribute):
                m, recv = e.func.attr, e.func.value
                if m == "covar_dist" and len(e.args) >= 2:
                    d = [k.value for k in e.keywords if k.arg == "diag"]
                    t = self.truth(d[0]) if d else False
                    return Val(None if t is None else (1 if t else 2), data=True)
                if isinstance(recv, ast.Name) and recv.id == self.sn and self.call_method is not None:
                    r = self.call_method(m, [self.ev(a) for a in e.args], e)
                    if r is not None:
                        return r
                if m in ("size", "dim", "ndimension", "numel", "item", "tolist"):
                    return None  # python numbers
                v = self.ev(recv)
                if m in UNARY:
                    return v
                if m in ELEMENTWISE and e.args:
                    return self.combine(v, self.ev(e.args[0]), e)
                if v is None:
                    return None
                if m == "unsqueeze" and e.args:
                    return Val(None if v.rank is None else v.rank + 1, v.param, v.data) if self._neg(e.args[0]) else Val(None, v.param, v.data)
                if m == "squeeze" and e.args:
                    return Val(None if v.rank is None else v.rank - 1, v.param, v.data) if self._neg(e.args[0]) else Val(None, v.param, v.data)
                if m in ("view", "reshape", "expand"):
                    trail = [a for a in e.args if not isinstance(a, ast.Starred)]
                    stars = [a for a in e.args if isinstance(a, ast.Starred)]
                    if stars and e.args and isinstance(e.args[0], ast.Starred) and all(not isinstance(a, ast.Starred) for a in e.args[1:]):
                        st = e.args[0].value
                        # *x.shape[:-k] of the receiver keeps all but its last k dimensions
                        if isinstance(st, ast.Subscript) and isinstance(st.value, ast.Attribute) and st.value.attr == "shape" and isinstance(st.slice, ast.Slice) and st.slice.lower is None \
                           and self._neg(st.slice.upper) and src(st.value.value) == src(recv):
                            k = st.slice.upper.operand.value
                            return Val(None if v.rank is None else v.rank - k + len(trail), v.param, v.data)
                        if "batch_shape" in src(st):
                            return Val(len(trail), v.param, v.data)
                        return Val(None, v.param, v.data)
                    return Val(None, v.param, v.data)
                if m in ("sum", "mean", "prod", "norm", "logsumexp", "amax", "amin"):
                    dims = [k.value for k in e.keywords if k.arg in ("dim", "axis")] or list(e.args[:1])
                    if not dims or v.rank is None:
                        return Val(None, v.param, v.data)
                    d = dims[0]
                    k = len(d.elts) if isinstance(d, (ast.Tuple, ast.List)) else 1
                    keep = any(kw.arg == "keepdim" and isinstance(kw.value, ast.Constant) and kw.value.value for kw in e.keywords)
                    return Val(v.rank if keep else v.rank - k, v.param, v.data)
                if m in ("matmul", "bmm", "mm") and e.args:
                    b = self.ev(e.args[0])
                    ra = [x.rank for x in (v, b) if x is not None and x.rank is not None]
                    return Val(max(ra + [2]) if len(ra) == 2 else None, v.param or bool(b and b.param), v.data or bool(b and b.data))
                if m in ("transpose", "permute", "t"):
                    return v
                if m in ("diagonal",):
                    return Val(None if v.rank is None else v.rank - 1, v.param, v.data)
                return Val(None, v.param, v.data)
            if fn.startswith("torch.") and fn.split(".")[-1] in UNARY and e.args:
                return self.ev(e.args[0])
            if fn in ("torch.matmul",) and len(e.args) == 2:
                a, b = self.ev(e.args[0]), self.ev(e.args[1])
                return Val(2, bool(a and a.param) or bool(b and b.param), bool(a and a.data) or bool(b and b.data))
            if fn in ("torch.add", "torch.sub", "torch.mul", "torch.div", "torch.pow") and len(e.args) >= 2:
                return self.combine(self.ev(e.args[0]), self.ev(e.args[1]), e)
            if isinstance(e.func, ast.Name) and self.call_function is not None and not (e.func.id in self.env and callable(self.env[e.func.id])):
                r = self.call_function(e.func.id, [self.ev(a) for a in e.args], e)
                if r is not None:
                    return r
            if isinstance(e.func, ast.Name) and e.func.id in self.env and callable(self.env[e.func.id]):
                return self.env[e.func.id]([self.ev(a) for a in e.args], e)  # local closures
        return None

    @staticmethod
    def _neg(a: ast.AST) -> bool:
        return isinstance(a, ast.UnaryOp) and isinstance(a.op, ast.USub) and isinstance(a.operand, ast.Constant)
