"""Block-range typing of a joint (train + new/test) vector or matrix.

Abstract value: ('vec', r) or ('mat', r, c) with r, c in {ALL, OLD, NEW};  OLD = indices < num_train (training block),
NEW = indices >= num_train (test / fantasy block).  Subscripts whose slice bounds are `num_train` refine the ranges.
"""
from __future__ import annotations

import ast
from typing import Dict, Optional, Set, Tuple

from ..index import chain, src

ALL, OLD, NEW = "ALL", "OLD", "NEW"


class BlockEval:
    def __init__(self, boundary_names: Set[str], env: Optional[Dict[str, tuple]] = None):
        """boundary_names: expressions (source text) that denote num_train, e.g. {'self.num_train', 'num_train'}"""
        self.bnd = set(boundary_names)
        self.env: Dict[str, tuple] = dict(env or {})
        self.notes = []

    def is_boundary(self, e: Optional[ast.AST]) -> bool:
        if e is None:
            return False
        t = src(e)
        if t in self.bnd:
            return True
        # (num_train // num_tasks) on a (points x tasks) view
        if isinstance(e, ast.BinOp) and isinstance(e.op, ast.FloorDiv) and src(e.left) in self.bnd:
            return True
        return False

    def slice_range(self, s: ast.AST, base: str) -> Optional[str]:
        """range selected by one slice component applied to an axis of range `base`"""
        if isinstance(s, ast.Slice):
            if s.lower is None and s.upper is None:
                return base
            if self.is_boundary(s.lower) and s.upper is None:
                return NEW if base == ALL else None
            if s.lower is None and self.is_boundary(s.upper):
                return OLD if base == ALL else None
            return None
        return None

    def ev(self, e: ast.AST) -> Optional[tuple]:
        if isinstance(e, ast.Name):
            return self.env.get(e.id)
        if isinstance(e, ast.Subscript):
            base = self.ev(e.value)
            if base is None:
                return None
            sl = e.slice
            elts = list(sl.elts) if isinstance(sl, ast.Tuple) else [sl]
            # drop a leading Ellipsis
            if elts and isinstance(elts[0], ast.Constant) and elts[0].value is Ellipsis:
                elts = elts[1:]
            else:
                return None  # batch indexing: not a block selection
            if base[0] == "vec":
                if len(elts) == 1:
                    r = self.slice_range(elts[0], base[1])
                    return ("vec", r) if r else ("vec", "?")
                if len(elts) == 2 and isinstance(elts[1], ast.Slice) and elts[1].lower is None and elts[1].upper is None:
                    # (points x tasks) view of a multitask mean: `[..., (num_train // num_tasks):, :]`
                    r = self.slice_range(elts[0], base[1])
                    return ("vec", r) if r else ("vec", "?")
                return ("vec", "?")
            if base[0] == "mat":
                if len(elts) == 1:
                    c = self.slice_range(elts[0], base[2])
                    return ("mat", base[1], c or "?")
                if len(elts) == 2:
                    r = self.slice_range(elts[0], base[1])
                    c = self.slice_range(elts[1], base[2])
                    return ("mat", r or "?", c or "?")
                return ("mat", "?", "?")
        if isinstance(e, ast.Call) and isinstance(e.func, ast.Attribute):
            m = e.func.attr
            b = self.ev(e.func.value)
            if b is None:
                return None
            if m in ("to_dense", "evaluate_kernel", "contiguous", "detach", "clone", "view", "reshape", "expand", "float", "double", "type_as", "to"):
                return b
            if m == "transpose" and b[0] == "mat" and sorted(src(a) for a in e.args) == ["-1", "-2"]:
                return ("mat", b[2], b[1])
            return None
        if isinstance(e, ast.Call) and chain(e.func) in ("to_dense", "to_linear_operator") and e.args:
            return self.ev(e.args[0])
        return None

    def assign(self, target: ast.AST, value: ast.AST):
        if isinstance(target, ast.Name):
            v = self.ev(value)
            if v is not None:
                self.env[target.id] = v
            elif target.id in self.env:
                # re-bound to something we cannot type: forget
                del self.env[target.id]
            if src(value) in self.bnd and isinstance(target, ast.Name):
                self.bnd.add(target.id)
        elif isinstance(target, ast.Tuple) and isinstance(value, ast.Tuple) and len(target.elts) == len(value.elts):
            for t, v in zip(target.elts, value.elts):
                self.assign(t, v)


def show(v: Optional[tuple]) -> str:
    if v is None:
        return "untyped"
    if v[0] == "vec":
        return "%s vector" % v[1]
    return "%s x %s" % (v[1], v[2])
