"""Flat-layout domain for the derivative kernels (C06-7).

Tracks, for tensors built from an (.., n, d) input, which of the two symbolic axes N (points) and D (input dimensions) is the
*minor* (fastest varying) one after a 2-d block has been flattened:  ("vec", "N") a vector over points, ("mat", [A, B]) the two
trailing axes, ("flat", major, minor) a flattened block.  Enough to decide whether the pieces concatenated into the diagonal of a
derivative kernel are laid out component-major / point-minor, which is what the interleaving permutation
`arange(n (d+1)).view(d+1, n).t().reshape(-1)` assumes of its source.
"""
from __future__ import annotations

import ast
from typing import List, Optional, Tuple

from ..index import chain, src


def size_symbol(e: ast.AST) -> Optional[str]:
    """N / D for size expressions of the inputs x1, x2 (shape (.., n, d)); products and sums of them give None"""
    t = src(e).replace(" ", "")
    for pat, sym in ((".shape[-2:][0]", "N"), (".shape[-2]", "N"), (".size(-2)", "N"), (".shape[-2:][1]", "D"), (".shape[-1]", "D"), (".size(-1)", "D")):
        if t.endswith(pat) and t[:2] in ("x1", "x2"):
            return sym
    return None


def _last_two(args) -> bool:
    vals = []
    for a in args:
        if isinstance(a, ast.UnaryOp) and isinstance(a.op, ast.USub) and isinstance(a.operand, ast.Constant):
            vals.append(-a.operand.value)
    return sorted(vals) == [-2, -1]


def layout(e: ast.AST):
    """-> ("vec", s) | ("mat", [a, b]) | ("flat", major, minor) | None"""
    if isinstance(e, ast.Name) and e.id in ("x1", "x2"):
        return ("mat", ["N", "D"])
    if isinstance(e, ast.BinOp):
        l, r = layout(e.left), layout(e.right)
        for v in (l, r):
            if v is not None and v[0] in ("mat", "flat"):
                return v
        return l or r
    if isinstance(e, ast.Call):
        fn = chain(e.func) or ""
        if fn in ("torch.ones", "torch.zeros", "torch.full", "torch.empty"):
            dims = [a for a in e.args if not isinstance(a, ast.Starred)]
            syms = [size_symbol(a) for a in dims]
            if len(syms) >= 2 and syms[-1] and syms[-2]:
                return ("mat", [syms[-2], syms[-1]])
            if len(syms) >= 1 and syms[-1]:
                return ("vec", syms[-1])
            return None
        if fn == "torch.cat" and e.args and isinstance(e.args[0], (ast.Tuple, ast.List)):
            parts = [layout(x) for x in e.args[0].elts]
            if any(p is None for p in parts):
                return None
            minors = {p[1] if p[0] == "vec" else (p[2] if p[0] == "flat" else "?mat") for p in parts}
            if len(minors) == 1:
                return ("flat", "C", minors.pop())
            return ("flat", "C", "MIXED(%s)" % ",".join(sorted(minors)))
        if fn in ("torch.add", "torch.mul", "torch.sub", "torch.div") and len(e.args) >= 2:
            l, r = layout(e.args[0]), layout(e.args[1])
            for v in (l, r):
                if v is not None and v[0] in ("mat", "flat"):
                    return v
            return l or r
        if isinstance(e.func, ast.Attribute):
            m = e.func.attr
            if m == "forward" and any(k.arg == "diag" for k in e.keywords):
                return ("vec", "N")  # the base kernel's diagonal: one value per point
            base = layout(e.func.value)
            if m in ("transpose",) and _last_two(e.args):
                if base and base[0] == "mat":
                    return ("mat", [base[1][1], base[1][0]])
                return None
            if m in ("reshape", "view"):
                if base and base[0] == "mat":
                    return ("flat", base[1][0], base[1][1])
                return base
            if m == "expand":
                dims = [a for a in e.args if not isinstance(a, ast.Starred)]
                syms = [size_symbol(a) for a in dims]
                if len(syms) >= 2 and syms[-1] and syms[-2]:
                    return ("mat", [syms[-2], syms[-1]])
                return base
            if m == "repeat":
                # v.repeat(1, ..., 1, k): the vector tiled k times: copy index major, original index minor
                if base and base[0] == "vec":
                    return ("flat", "REP", base[1])
                return base
            if m == "sum":
                if base and base[0] == "mat":
                    return ("vec", base[1][0])
                return base
            if m in ("pow", "mul", "div", "add", "sub", "clamp", "clamp_min", "to", "contiguous", "clone", "abs", "sqrt", "exp"):
                l = base
                r = layout(e.args[0]) if e.args else None
                for v in (l, r):
                    if v is not None and v[0] in ("mat", "flat"):
                        return v
                return l or r
    return None


def permutation_minor(e: ast.AST) -> Optional[Tuple[str, Optional[str]]]:
    """for `torch.arange(T).view(P, Q).t().reshape(..)`: ("transposed", symbol of Q) - the source is read as P-major, Q-minor;
    without the .t(): ("identity", ..)"""
    cur = e
    transposed = False
    while isinstance(cur, ast.Call) and isinstance(cur.func, ast.Attribute):
        m = cur.func.attr
        if m in ("t",) or (m == "transpose" and len(cur.args) == 2):
            transposed = not transposed
        elif m in ("view", "reshape") and len(cur.args) == 2:
            q = size_symbol(cur.args[1])
            inner = cur.func.value
            while isinstance(inner, ast.Call) and isinstance(inner.func, ast.Attribute) and chain(inner.func) != "torch.arange":
                inner = inner.func.value
            if isinstance(inner, ast.Call) and chain(inner.func) == "torch.arange":
                return ("transposed" if transposed else "identity", q)
        cur = cur.func.value
    return None
