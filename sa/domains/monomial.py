"""Monomials with rational exponents: +-1 * prod atom_i ** q_i  (C13).

Enough algebra to recognise a scaling written in any of its usual spellings: sqrt(2 v) = sqrt(2) * stddev = (2 * v) ** 0.5,
1 / sqrt(pi) = pi ** -0.5.  Integer (and simple rational) constants are factorised into primes, so 2 ** (1/2) * 2 ** (1/2) == 2.
A sum is not a monomial; the caller may name it as an atom (e.g. the polynomial 1 + v).
"""
from __future__ import annotations

import ast
from fractions import Fraction
from typing import Callable, Dict, Optional

from ..index import chain


class Mono:
    __slots__ = ("sign", "exps")

    def __init__(self, sign: int = 1, exps: Optional[Dict[str, Fraction]] = None):
        self.sign = sign
        self.exps = {k: v for k, v in (exps or {}).items() if v != 0}

    @staticmethod
    def atom(name: str, q=1) -> "Mono":
        return Mono(1, {name: Fraction(q)})

    @staticmethod
    def number(x) -> Optional["Mono"]:
        if isinstance(x, bool):
            return None
        fr = None
        if isinstance(x, int):
            fr = Fraction(x)
        elif isinstance(x, float):
            f2 = Fraction(x).limit_denominator(4096)
            if float(f2) == x:
                fr = f2
        if fr is None or fr == 0:
            return None
        sign = -1 if fr < 0 else 1
        fr = abs(fr)
        exps: Dict[str, Fraction] = {}
        for n, s in ((fr.numerator, 1), (fr.denominator, -1)):
            p = 2
            while n > 1 and p * p <= n:
                while n % p == 0:
                    exps["#%d" % p] = exps.get("#%d" % p, Fraction(0)) + s
                    n //= p
                p += 1
            if n > 1:
                exps["#%d" % n] = exps.get("#%d" % n, Fraction(0)) + s
        return Mono(sign, exps)

    def __mul__(self, o: "Mono") -> "Mono":
        e = dict(self.exps)
        for k, v in o.exps.items():
            e[k] = e.get(k, Fraction(0)) + v
        return Mono(self.sign * o.sign, e)

    def power(self, q: Fraction) -> Optional["Mono"]:
        if self.sign < 0 and q.denominator != 1:
            return None
        s = self.sign if q.denominator == 1 and q.numerator % 2 else 1
        return Mono(s, {k: v * q for k, v in self.exps.items()})

    def __eq__(self, o) -> bool:
        return isinstance(o, Mono) and self.sign == o.sign and self.exps == o.exps

    def __hash__(self):
        return hash((self.sign, tuple(sorted(self.exps.items()))))

    def show(self) -> str:
        if not self.exps:
            return "%d" % self.sign
        parts = []
        for k, v in sorted(self.exps.items()):
            k = k[1:] if k.startswith("#") else k
            parts.append(k if v == 1 else "%s^(%s)" % (k, v))
        return ("-" if self.sign < 0 else "") + " ".join(parts)


def _num(e: ast.AST) -> Optional[Fraction]:
    if isinstance(e, ast.Constant) and isinstance(e.value, (int, float)) and not isinstance(e.value, bool):
        f = Fraction(e.value).limit_denominator(4096)
        return f if float(f) == float(e.value) else None
    if isinstance(e, ast.UnaryOp) and isinstance(e.op, ast.USub):
        v = _num(e.operand)
        return None if v is None else -v
    if isinstance(e, ast.BinOp) and isinstance(e.op, ast.Div):
        a, b = _num(e.left), _num(e.right)
        return a / b if a is not None and b not in (None, 0) else None
    return None


SHAPE_ONLY = {"view", "unsqueeze", "reshape", "to", "type_as", "expand", "expand_as", "contiguous", "clone", "squeeze"}


def evaluate(e: ast.AST, leaf: Callable[[ast.AST], Optional[Mono]]) -> Optional[Mono]:
    """expression -> monomial; `leaf` names the atoms (and is asked first, so it can also name whole sub-expressions)"""
    m = leaf(e)
    if m is not None:
        return m
    if isinstance(e, ast.Constant):
        return Mono.number(e.value)
    if isinstance(e, ast.Attribute) and chain(e) in ("math.pi", "torch.pi", "np.pi", "numpy.pi"):
        return Mono.atom("pi")
    if isinstance(e, ast.UnaryOp) and isinstance(e.op, ast.USub):
        v = evaluate(e.operand, leaf)
        return None if v is None else Mono(-v.sign, v.exps)
    if isinstance(e, ast.BinOp):
        if isinstance(e.op, ast.Mult):
            a, b = evaluate(e.left, leaf), evaluate(e.right, leaf)
            return a * b if a is not None and b is not None else None
        if isinstance(e.op, ast.Div):
            a, b = evaluate(e.left, leaf), evaluate(e.right, leaf)
            bi = b.power(Fraction(-1)) if b is not None else None
            return a * bi if a is not None and bi is not None else None
        if isinstance(e.op, ast.Pow):
            a, q = evaluate(e.left, leaf), _num(e.right)
            return a.power(q) if a is not None and q is not None else None
        return None
    if isinstance(e, ast.Call):
        fn = chain(e.func) or ""
        if fn in ("torch.sqrt", "math.sqrt", "np.sqrt") and len(e.args) == 1:
            a = evaluate(e.args[0], leaf)
            return a.power(Fraction(1, 2)) if a is not None else None
        if fn in ("torch.rsqrt",) and len(e.args) == 1:
            a = evaluate(e.args[0], leaf)
            return a.power(Fraction(-1, 2)) if a is not None else None
        if fn in ("torch.mul", "torch.div", "torch.true_divide") and len(e.args) == 2:
            a, b = evaluate(e.args[0], leaf), evaluate(e.args[1], leaf)
            if a is None or b is None:
                return None
            return a * b if fn == "torch.mul" else (a * b.power(Fraction(-1)))
        if fn.split(".")[-1] == "_pad_with_singletons" and e.args:
            return evaluate(e.args[0], leaf)
        if isinstance(e.func, ast.Attribute):
            m_, recv = e.func.attr, e.func.value
            if m_ in SHAPE_ONLY:
                return evaluate(recv, leaf)
            r = evaluate(recv, leaf)
            if r is None:
                return None
            if m_ == "sqrt" and not e.args:
                return r.power(Fraction(1, 2))
            if m_ == "rsqrt" and not e.args:
                return r.power(Fraction(-1, 2))
            if m_ == "reciprocal" and not e.args:
                return r.power(Fraction(-1))
            if m_ == "square" and not e.args:
                return r.power(Fraction(2))
            if m_ == "pow" and len(e.args) == 1:
                q = _num(e.args[0])
                return r.power(q) if q is not None else None
            if m_ in ("mul", "div", "true_divide") and len(e.args) == 1:
                b = evaluate(e.args[0], leaf)
                if b is None:
                    return None
                return r * b if m_ == "mul" else r * b.power(Fraction(-1))
    return None
