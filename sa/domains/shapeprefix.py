"""Shape-prefix domain: does the shape of a tensor expression start with the module's batch shape?

Verdicts: 'batch' (provably starts with *batch_shape), 'nobatch' (provably has no batch prefix), 'unknown'.
"""
from __future__ import annotations

import ast
from typing import Dict, List, Optional, Tuple

from ..index import ClassInfo, FuncInfo, ProgramIndex, call_name, calls_in, chain, const_str, get_arg, src

BATCH_NAMES = {"batch_shape", "self.batch_shape", "self._batch_shape", "_batch_shape"}
FACTORIES = {"zeros", "ones", "rand", "randn", "empty", "full", "tensor", "as_tensor", "eye"}


def _starts_with_batch(args: List[ast.AST], env: Dict[str, str]) -> str:
    if not args:
        return "nobatch"
    a0 = args[0]
    if isinstance(a0, ast.Starred):
        return "batch" if src(a0.value) in BATCH_NAMES else "unknown"
    # torch.zeros(shape) with a shape local / torch.Size([*batch_shape, ...]) / torch.zeros(batch_shape)
    if isinstance(a0, ast.Name):
        if a0.id in BATCH_NAMES:
            return "batch"
        if any(isinstance(a, ast.Starred) and src(a.value) in BATCH_NAMES for a in args[1:]):
            return "nobatch"  # the batch shape is spliced in after a leading size
        return env.get(a0.id, "unknown") if env.get(a0.id) in ("batch", "nobatch") else "unknown"
    if src(a0) in BATCH_NAMES:
        return "batch"
    k = shape_expr(a0, env)
    if k != "unknown":
        return k
    if isinstance(a0, ast.Constant) and isinstance(a0.value, (int, float)):
        return "nobatch"
    return "unknown"


def shape_expr(e: ast.AST, env: Dict[str, str]) -> str:
    """torch.Size([*batch_shape, ...]) / (*batch_shape, n) / batch_shape + (...)"""
    if isinstance(e, ast.Call) and (chain(e.func) or "").endswith("Size") and e.args:
        return shape_expr(e.args[0], env)
    if isinstance(e, (ast.List, ast.Tuple)):
        if not e.elts:
            return "nobatch"
        f = e.elts[0]
        if isinstance(f, ast.Starred):
            return "batch" if src(f.value) in BATCH_NAMES else "unknown"
        return "nobatch"
    if isinstance(e, ast.BinOp) and isinstance(e.op, ast.Add):
        return "batch" if src(e.left) in BATCH_NAMES else shape_expr(e.left, env)
    if isinstance(e, ast.Name):
        return env.get(e.id, "unknown")
    if src(e) in BATCH_NAMES:
        return "batch"
    return "unknown"


def tensor_prefix(e: ast.AST, env: Dict[str, str]) -> str:
    """Verdict for a tensor-valued expression."""
    if isinstance(e, ast.Name):
        return env.get(e.id, "unknown")
    if isinstance(e, ast.IfExp):
        a, b = tensor_prefix(e.body, env), tensor_prefix(e.orelse, env)
        # `zeros(*batch_shape) if len(batch_shape) else tensor(0.)`: the scalar branch is the empty batch shape
        if a == "batch" and "batch_shape" in src(e.test) and b in ("nobatch", "batch"):
            return "batch"
        return a if a == b else "unknown"
    if isinstance(e, ast.Call):
        fn = chain(e.func) or ""
        short = fn.split(".")[-1] if fn else (e.func.attr if isinstance(e.func, ast.Attribute) else "")
        if short == "Parameter" and e.args:
            return tensor_prefix(e.args[0], env)
        if short in FACTORIES and (fn.startswith("torch.") or fn in FACTORIES):
            if short in ("tensor", "as_tensor"):
                return "nobatch" if e.args and isinstance(e.args[0], (ast.Constant, ast.List, ast.Tuple, ast.UnaryOp)) else "unknown"
            return _starts_with_batch(list(e.args), env)
        if short in ("clone", "contiguous", "to", "detach", "type", "float", "double") and isinstance(e.func, ast.Attribute):
            return tensor_prefix(e.func.value, env)
        return "unknown"
    return "unknown"


def local_env(fn: ast.AST) -> Dict[str, str]:
    """Verdicts of locals assigned once from shape / tensor expressions (in source order)."""
    env: Dict[str, str] = {}
    for n in ast.walk(fn):
        if isinstance(n, ast.Assign) and len(n.targets) == 1 and isinstance(n.targets[0], ast.Name):
            nm = n.targets[0].id
            v = shape_expr(n.value, env)
            if v == "unknown":
                v = tensor_prefix(n.value, env)
            if nm in env and env[nm] != v:
                env[nm] = "unknown"
            else:
                env[nm] = v
    return env


def registrations(idx: ProgramIndex, cls: ClassInfo) -> List[Tuple[str, str, FuncInfo, ast.AST, str]]:
    """(kind, name, function, node, verdict) for every parameter/buffer registered in the class's own methods."""
    out = []
    for m in cls.methods.values():
        env = local_env(m.node)
        for c in calls_in(m.node):
            if isinstance(c.func, ast.Attribute) and c.func.attr in ("register_parameter", "register_buffer") and chain(c.func.value) == "self":
                nm = get_arg(c, 0, "name")
                val = get_arg(c, 1, "parameter" if c.func.attr == "register_parameter" else "tensor")
                name = const_str(nm) if nm is not None else None
                if name is None:
                    # a computed name: keyed by its shape, with local variables (not parameters) anonymised, so that renaming a
                    # loop variable does not change the instance key
                    if nm is not None:
                        import copy
                        t = copy.deepcopy(nm)
                        for x in ast.walk(t):
                            if isinstance(x, ast.Name) and x.id not in m.params and x.id not in ("str", "int", "repr", "format"):
                                x.id = "_"
                        name = src(t)
                    else:
                        name = "?"
                verdict = tensor_prefix(val, env) if val is not None else "unknown"
                out.append(("parameter" if c.func.attr == "register_parameter" else "buffer", name, m, c, verdict))
        for n in ast.walk(m.node):
            if isinstance(n, ast.Assign) and len(n.targets) == 1 and isinstance(n.targets[0], ast.Attribute) and chain(n.targets[0].value) == "self":
                if isinstance(n.value, ast.Call) and (chain(n.value.func) or "").endswith("Parameter"):
                    out.append(("parameter", n.targets[0].attr, m, n, tensor_prefix(n.value, env)))
    return out
