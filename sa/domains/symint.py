"""Symbolic intervals and a tiny rewriting normaliser for the constraint transforms (C17).

Terms are built from the constraint's method bodies:
    x (the argument), L (lower_bound), U (upper_bound), numeric constants, T(e) = self._transform(e),
    Tinv(e) = self._inv_transform(e), unary minus, + - * /.

Normal form of a term: a *scaled linear form*  (lin, k)  meaning  lin * d**k  with d = U - L > 0, where
lin maps atoms to Fractions.  Atoms: '1', 'x', 'L', 'U', ('T', nf), ('Tinv', nf).
Rewrites built in: T(Tinv(z)) -> z, Tinv(T(z)) -> z, (z*d)/d -> z, (z - e) + e -> z, -(-z) -> z.

Intervals: endpoints are linear forms a*L + b*U + c or +-inf; order fact L < U.
"""
from __future__ import annotations

import ast
from fractions import Fraction
from typing import Dict, Optional, Tuple

from ..index import AnalysisError, chain, src

INF = "inf"
NINF = "-inf"

# primitive summaries: name -> (lo, hi, monotonicity)   (closed ranges, as the property states them)
PRIMITIVES = {
    "sigmoid": (Fraction(0), Fraction(1), +1),
    "softplus": (Fraction(0), INF, +1),
    "exp": (Fraction(0), INF, +1),
}
# inverse pairing
INVERSE_OF = {"sigmoid": "inv_sigmoid", "softplus": "inv_softplus", "exp": "log"}


# ---- normal forms -------------------------------------------------------------------------------
class NF:
    """sum of  coef * atom * d**k ; keys are (atom, k)"""

    __slots__ = ("lin",)

    def __init__(self, lin: Dict):
        self.lin = {a: c for a, c in lin.items() if c != 0}

    def key(self):
        return tuple(sorted(((repr(a), c) for a, c in self.lin.items())))

    def __eq__(self, other):
        return isinstance(other, NF) and self.key() == other.key()

    def __hash__(self):
        return hash(self.key())

    def __repr__(self):
        parts = []
        for (a, k), c in sorted(self.lin.items(), key=lambda t: repr(t[0])):
            nm = a if isinstance(a, str) else "%s(%r)" % (a[0], a[1])
            parts.append(("%s*" % c if c != 1 else "") + nm + ("" if k == 0 else "*d^%d" % k))
        return " + ".join(parts) or "0"


def atom(a) -> NF:
    return NF({(a, 0): Fraction(1)})


def const(c) -> NF:
    return NF({("1", 0): Fraction(c)})


D = NF({("U", 0): Fraction(1), ("L", 0): Fraction(-1)})


def neg(a: NF) -> NF:
    return NF({k: -v for k, v in a.lin.items()})


def add(a: NF, b: NF) -> NF:
    out = dict(a.lin)
    for k, v in b.lin.items():
        out[k] = out.get(k, Fraction(0)) + v
    return NF(out)


def _is_const(p: NF):
    return set(p.lin) <= {("1", 0)}


def mul(a: NF, b: NF) -> NF:
    if b == D:
        return NF({(at, k + 1): c for (at, k), c in a.lin.items()})
    if a == D:
        return NF({(at, k + 1): c for (at, k), c in b.lin.items()})
    for p, q in ((a, b), (b, a)):
        if _is_const(p):
            c = p.lin.get(("1", 0), Fraction(0))
            return NF({k: v * c for k, v in q.lin.items()})
    raise AnalysisError("symint: non-linear product %r * %r" % (a, b))


def div(a: NF, b: NF) -> NF:
    if b == D:
        return NF({(at, k - 1): c for (at, k), c in a.lin.items()})
    if _is_const(b) and b.lin:
        c = b.lin[("1", 0)]
        return NF({k: v / c for k, v in a.lin.items()})
    raise AnalysisError("symint: division by %r" % b)


def _single_atom(a: NF):
    if len(a.lin) == 1:
        ((at, k), c), = a.lin.items()
        if c == 1 and k == 0:
            return at
    return None


def apply_T(a: NF) -> NF:
    at = _single_atom(a)
    if isinstance(at, tuple) and at[0] == "Tinv":
        return at[1]
    return atom(("T", a))


def apply_Tinv(a: NF) -> NF:
    at = _single_atom(a)
    if isinstance(at, tuple) and at[0] == "T":
        return at[1]
    return atom(("Tinv", a))


# ---- intervals ----------------------------------------------------------------------------------
class Lin:
    """a*L + b*U + c"""

    __slots__ = ("a", "b", "c")

    def __init__(self, a=0, b=0, c=0):
        self.a, self.b, self.c = Fraction(a), Fraction(b), Fraction(c)

    def __add__(self, o):
        return Lin(self.a + o.a, self.b + o.b, self.c + o.c)

    def __neg__(self):
        return Lin(-self.a, -self.b, -self.c)

    def __sub__(self, o):
        return self + (-o)

    def is_const(self):
        return self.a == 0 and self.b == 0

    def nonneg(self) -> bool:
        """provably >= 0 given L < U: b*(U-L) + c with b >= 0, c >= 0"""
        return self.a == -self.b and self.b >= 0 and self.c >= 0

    def __repr__(self):
        return "%s*L+%s*U+%s" % (self.a, self.b, self.c)


def ep_neg(e):
    if e == INF:
        return NINF
    if e == NINF:
        return INF
    return -e


def ep_add(e, o):
    if e in (INF, NINF):
        return e
    if o in (INF, NINF):
        return o
    return e + o


def ep_mul_d(e):
    """multiply an endpoint by d = U - L > 0"""
    if e in (INF, NINF):
        return e
    if not e.is_const():
        raise AnalysisError("symint: endpoint %r times (upper-lower) is not linear" % e)
    return Lin(-e.c, e.c, 0)


def ep_le(lo, hi) -> bool:
    """lo <= hi provable"""
    if lo == NINF or hi == INF:
        return True
    if lo == INF or hi == NINF:
        return False
    return (hi - lo).nonneg()


class Val:
    """abstract value of a sub-term: normal form + interval + monotonicity in x (+1/-1/0, None unknown)"""

    def __init__(self, nf: NF, lo, hi, mono: Optional[int], is_const: bool):
        self.nf, self.lo, self.hi, self.mono, self.is_const = nf, lo, hi, mono, is_const


class TransformEval:
    """Evaluates one expression of a constraint method symbolically."""

    def __init__(self, self_name: str, arg_name: str, transform_prim: str, arg_val: Optional[Val] = None, resolver=None):
        self.sn, self.arg = self_name, arg_name
        self.resolver = resolver  # attribute name -> expression over self.lower_bound / self.upper_bound (properties, refreshed copies)
        if transform_prim not in PRIMITIVES:
            raise AnalysisError("symint: default transform %r has no primitive summary" % transform_prim)
        self.prim = PRIMITIVES[transform_prim]
        self.env: Dict[str, Val] = {}
        self.arg_val = arg_val or Val(atom("x"), NINF, INF, +1, False)

    def ev(self, e: ast.AST) -> Val:
        if isinstance(e, ast.Name):
            if e.id == self.arg:
                return self.arg_val
            if e.id in self.env:
                return self.env[e.id]
            raise AnalysisError("symint: unknown name %s" % e.id)
        if isinstance(e, ast.Constant) and isinstance(e.value, (int, float)):
            c = Fraction(e.value)
            return Val(const(c), Lin(c=c), Lin(c=c), 0, True)
        if isinstance(e, ast.Attribute):
            c = chain(e)
            if c == "%s.lower_bound" % self.sn:
                return Val(atom("L"), Lin(a=1), Lin(a=1), 0, True)
            if c == "%s.upper_bound" % self.sn:
                return Val(atom("U"), Lin(b=1), Lin(b=1), 0, True)
            if self.resolver is not None and c and c.startswith(self.sn + ".") and c.count(".") == 1:
                r = self.resolver(c.split(".")[1])
                if r is not None:
                    return self.ev(r)
            raise AnalysisError("symint: unknown attribute %s" % c)
        if isinstance(e, ast.UnaryOp) and isinstance(e.op, ast.USub):
            v = self.ev(e.operand)
            return Val(neg(v.nf), ep_neg(v.hi), ep_neg(v.lo), None if v.mono is None else -v.mono, v.is_const)
        if isinstance(e, ast.BinOp):
            a, b = self.ev(e.left), self.ev(e.right)
            if isinstance(e.op, ast.Add):
                return self._add(a, b)
            if isinstance(e.op, ast.Sub):
                nb = Val(neg(b.nf), ep_neg(b.hi), ep_neg(b.lo), None if b.mono is None else -b.mono, b.is_const)
                return self._add(a, nb)
            if isinstance(e.op, ast.Mult):
                return self._mul(a, b)
            if isinstance(e.op, ast.Div):
                return self._div(a, b)
            raise AnalysisError("symint: operator %s" % type(e.op).__name__)
        if isinstance(e, ast.Call):
            f = chain(e.func)
            if f == "%s._transform" % self.sn and len(e.args) == 1:
                v = self.ev(e.args[0])
                lo, hi, m = self.prim
                return Val(apply_T(v.nf), Lin(c=lo), hi if hi == INF else Lin(c=hi), None if v.mono is None else v.mono * m, False)
            if f == "%s._inv_transform" % self.sn and len(e.args) == 1:
                v = self.ev(e.args[0])
                return Val(apply_Tinv(v.nf), NINF, INF, v.mono, False)
            raise AnalysisError("symint: unknown call %s" % src(e))
        raise AnalysisError("symint: unknown expression form %s" % src(e))

    def _add(self, a: Val, b: Val) -> Val:
        if not a.is_const and not b.is_const:
            # both depend on x: monotone if same direction; interval = sum
            mono = a.mono if a.mono == b.mono else None
        else:
            mono = a.mono if b.is_const else b.mono
        return Val(add(a.nf, b.nf), ep_add(a.lo, b.lo), ep_add(a.hi, b.hi), mono, a.is_const and b.is_const)

    def _mul(self, a: Val, b: Val) -> Val:
        nf = mul(a.nf, b.nf)
        for p, q in ((a, b), (b, a)):
            if q.nf == D:  # times (upper - lower) > 0
                return Val(nf, ep_mul_d(p.lo), ep_mul_d(p.hi), p.mono, p.is_const)
            if q.is_const and _is_const(q.nf):
                c = q.nf.lin.get(("1", 0), Fraction(0))
                if c > 0:
                    return Val(nf, _scale(p.lo, c), _scale(p.hi, c), p.mono, p.is_const)
                if c < 0:
                    return Val(nf, _scale(p.hi, c), _scale(p.lo, c), None if p.mono is None else -p.mono, p.is_const)
        raise AnalysisError("symint: product of %r and %r" % (a.nf, b.nf))

    def _div(self, a: Val, b: Val) -> Val:
        nf = div(a.nf, b.nf)
        # range is not needed for the inverse direction; keep it unknown
        return Val(nf, NINF, INF, a.mono if b.is_const else None, a.is_const and b.is_const)


def _scale(e, c):
    if e in (INF, NINF):
        return e if c > 0 else ep_neg(e)
    return Lin(e.a * c, e.b * c, e.c * c)
