"""Domain of definedness of a one-variable real expression (C17-7).

For an expression e(x) built from x, constants, + - * / by constants, unary minus and the elementary functions below, computes the
open interval of x on which every sub-expression is defined as a real number (log arguments > 0, logit arguments in (0, 1), ...).
Requirements `g(x) > c` are solved exactly for the monotone g that occur (compositions of affine maps, exp, expm1, log, log1p):
g is strictly monotone, so the solution is a half line whose end point is g^{-1}(c), computed by inverting the primitives.
Anything outside the grammar raises Unknown (the caller reports "not decided"), clamping constructs are reported separately.
"""
from __future__ import annotations

import ast
import math
from typing import List, Optional, Tuple

INF = math.inf
CLAMPING = {"clamp", "clamp_", "clamp_min", "clamp_max", "clip", "where", "maximum", "minimum", "nan_to_num", "relu", "hardtanh", "max", "min"}


class Unknown(Exception):
    pass


def fname(c: ast.Call) -> str:
    f = c.func
    if isinstance(f, ast.Attribute):
        return f.attr
    if isinstance(f, ast.Name):
        return f.id
    return ""


def operand(c: ast.Call) -> ast.AST:
    """x.log() -> x ; torch.log(x) -> x"""
    f = c.func
    if isinstance(f, ast.Attribute) and isinstance(f.value, ast.Name) and f.value.id in ("torch", "math", "F", "np"):
        if not c.args:
            raise Unknown("call without operand")
        return c.args[0]
    if isinstance(f, ast.Attribute) and isinstance(f.value, ast.Attribute) and isinstance(f.value.value, ast.Name) and f.value.value.id == "torch":
        return c.args[0]  # torch.special.logit(x)
    if isinstance(f, ast.Attribute):
        return f.value
    if c.args:
        return c.args[0]
    raise Unknown("call without operand")


def const(e: ast.AST) -> Optional[float]:
    if isinstance(e, ast.Constant) and isinstance(e.value, (int, float)) and not isinstance(e.value, bool):
        return float(e.value)
    if isinstance(e, ast.UnaryOp) and isinstance(e.op, ast.USub):
        v = const(e.operand)
        return None if v is None else -v
    return None


def clamping_constructs(e: ast.AST) -> List[str]:
    out = []
    for n in ast.walk(e):
        if isinstance(n, ast.Call):
            if fname(n) in CLAMPING:
                out.append(fname(n))
            for k in n.keywords:
                if k.arg == "eps" and not (isinstance(k.value, ast.Constant) and k.value.value is None):
                    out.append("%s(eps=...)" % fname(n))
    return out


def solve(g: ast.AST, c: float, var: str) -> Tuple[float, int]:
    """for strictly monotone g: (x0, direction) with g(x) > c  <=>  x > x0 (direction +1) or x < x0 (direction -1).
    x0 may be -inf/+inf (always / never true)."""
    if isinstance(g, ast.Name) and g.id == var:
        return c, 1
    if isinstance(g, ast.UnaryOp) and isinstance(g.op, ast.USub):
        x0, d = solve(g.operand, -c, var)  # -h > c <=> h < -c
        return x0, -d
    if isinstance(g, ast.BinOp):
        kl, kr = const(g.left), const(g.right)
        if isinstance(g.op, ast.Add) and kr is not None:
            return solve(g.left, c - kr, var)
        if isinstance(g.op, ast.Add) and kl is not None:
            return solve(g.right, c - kl, var)
        if isinstance(g.op, ast.Sub) and kr is not None:
            return solve(g.left, c + kr, var)
        if isinstance(g.op, ast.Sub) and kl is not None:
            x0, d = solve(g.right, kl - c, var)  # k - h > c <=> h < k - c
            return x0, -d
        if isinstance(g.op, ast.Mult) and (kr is not None or kl is not None):
            k, h = (kr, g.left) if kr is not None else (kl, g.right)
            if k == 0:
                raise Unknown("multiplication by zero")
            x0, d = solve(h, c / k, var)
            return x0, d if k > 0 else -d
        if isinstance(g.op, ast.Div) and kr is not None and kr != 0:
            x0, d = solve(g.left, c * kr, var)
            return x0, d if kr > 0 else -d
        raise Unknown("non-affine operation %s" % ast.dump(g.op))
    if isinstance(g, ast.Call):
        f = fname(g)
        h = operand(g)
        if f == "exp":
            if c <= 0:
                return -INF, 1  # always true (wherever h is defined)
            return solve(h, math.log(c), var)
        if f == "expm1":
            if c <= -1:
                return -INF, 1
            return solve(h, math.log1p(c), var)
        if f == "log":
            return solve(h, math.exp(c), var)
        if f == "log1p":
            return solve(h, math.expm1(c), var)
        if f in ("neg",):
            x0, d = solve(h, -c, var)
            return x0, -d
        raise Unknown("function %s" % f)
    raise Unknown("expression form %s" % type(g).__name__)


def domain(e: ast.AST, var: str) -> Tuple[float, float]:
    """open interval of x on which e is defined"""
    lo, hi = -INF, INF

    def require(g: ast.AST, c: float, strict_greater: bool = True):
        nonlocal lo, hi
        x0, d = solve(g, c, var)
        if d > 0:
            lo = max(lo, x0)
        else:
            hi = min(hi, x0)

    def visit(n: ast.AST):
        if isinstance(n, ast.Call):
            f = fname(n)
            h = operand(n)
            visit(h)
            if f == "log":
                require(h, 0.0)
            elif f == "log1p":
                require(h, -1.0)
            elif f == "logit":
                require(h, 0.0)
                require(ast.BinOp(left=ast.Constant(value=1.0), op=ast.Sub(), right=h), 0.0)
            elif f == "sqrt":
                require(h, 0.0)
            elif f in ("exp", "expm1", "neg", "sigmoid", "softplus", "tanh"):
                pass
            elif f in CLAMPING:
                pass  # total; reported by clamping_constructs
            else:
                raise Unknown("function %s" % f)
            for a in n.args[1:] if (isinstance(n.func, ast.Attribute) and isinstance(n.func.value, ast.Name) and n.func.value.id == "torch") else n.args:
                if a is not h:
                    visit(a)
            return
        if isinstance(n, (ast.BinOp,)):
            visit(n.left)
            visit(n.right)
            return
        if isinstance(n, ast.UnaryOp):
            visit(n.operand)
            return
        if isinstance(n, (ast.Name, ast.Constant)):
            return
        raise Unknown("expression form %s" % type(n).__name__)

    visit(e)
    return lo, hi
