"""ProgramIndex: parse /repo/gpytorch, resolve imports, classes, MRO, methods, registrations.

Nothing in here imports or executes gpytorch.  Everything is derived from `ast` on the current
working tree of the repository on every run.
"""
from __future__ import annotations

import ast
import os
import sys
import warnings
from dataclasses import dataclass, field
from typing import Dict, Iterable, Iterator, List, Optional, Tuple, Union


class AnalysisError(Exception):
    """The analysis cannot reach a verdict (vanished anchor, unknown form, floor not met)."""


# ------------------------------------------------------------------------------------------------
# small AST helpers
# ------------------------------------------------------------------------------------------------

def chain(expr: ast.AST) -> Optional[str]:
    """`self.a.b` -> 'self.a.b'; returns None when the expression is not a pure Name/Attribute chain."""
    parts = []
    while isinstance(expr, ast.Attribute):
        parts.append(expr.attr)
        expr = expr.value
    if isinstance(expr, ast.Name):
        parts.append(expr.id)
        return ".".join(reversed(parts))
    return None


def src(node: Optional[ast.AST]) -> str:
    if node is None:
        return ""
    try:
        return ast.unparse(node)
    except Exception:  # pragma: no cover
        return "<%s>" % type(node).__name__


def norm(node: ast.AST) -> str:
    """Normalised statement text (keys of findings): unparse, single line, no docstrings."""
    return " ".join(src(node).split())


def calls_in(node: ast.AST) -> Iterator[ast.Call]:
    for n in ast.walk(node):
        if isinstance(n, ast.Call):
            yield n


def call_name(call: ast.Call) -> Optional[str]:
    return chain(call.func)


def walk_no_nested(node: ast.AST) -> Iterator[ast.AST]:
    """ast.walk that does not descend into nested function/class/lambda definitions."""
    todo = list(ast.iter_child_nodes(node))
    while todo:
        n = todo.pop()
        yield n
        if isinstance(n, (ast.FunctionDef, ast.AsyncFunctionDef, ast.ClassDef, ast.Lambda)):
            continue
        todo.extend(ast.iter_child_nodes(n))


def const_str(node: ast.AST) -> Optional[str]:
    if isinstance(node, ast.Constant) and isinstance(node.value, str):
        return node.value
    return None


def get_arg(call: ast.Call, pos: int, name: Optional[str] = None) -> Optional[ast.AST]:
    if name is not None:
        for kw in call.keywords:
            if kw.arg == name:
                return kw.value
    if pos is not None and pos < len(call.args) and not any(isinstance(a, ast.Starred) for a in call.args[: pos + 1]):
        return call.args[pos]
    return None


def body_without_docstring(fn: ast.AST) -> List[ast.stmt]:
    body = list(getattr(fn, "body", []))
    if body and isinstance(body[0], ast.Expr) and isinstance(body[0].value, ast.Constant) and isinstance(
        body[0].value.value, str
    ):
        return body[1:]
    return body


# ------------------------------------------------------------------------------------------------
# program model
# ------------------------------------------------------------------------------------------------

@dataclass
class External:
    """A name that resolves outside the repository (torch.nn.Module, torch.autograd.Function …)."""

    dotted: str

    def __repr__(self):
        return "External(%s)" % self.dotted

    @property
    def name(self):
        return self.dotted.rsplit(".", 1)[-1]


@dataclass
class FuncInfo:
    module: "ModuleInfo"
    cls: Optional["ClassInfo"]
    name: str
    node: Union[ast.FunctionDef, ast.AsyncFunctionDef]
    decorators: List[str] = field(default_factory=list)
    kind: str = "method"  # method | property | setter | staticmethod | classmethod | function

    @property
    def qualname(self) -> str:
        return (self.cls.qualname + "." if self.cls else "") + self.name

    @property
    def where(self) -> str:
        return "%s:%d" % (self.module.relpath, self.node.lineno)

    @property
    def params(self) -> List[str]:
        a = self.node.args
        return [x.arg for x in a.posonlyargs + a.args]

    def cached_decorator(self) -> Optional[ast.AST]:
        for d in self.node.decorator_list:
            n = chain(d.func) if isinstance(d, ast.Call) else chain(d)
            if n and n.split(".")[-1] == "cached":
                return d
        return None

    def __hash__(self):
        return id(self.node)

    def __eq__(self, other):
        return isinstance(other, FuncInfo) and other.node is self.node


@dataclass
class ClassInfo:
    module: "ModuleInfo"
    name: str
    qualname: str
    node: ast.ClassDef
    base_exprs: List[ast.AST] = field(default_factory=list)
    bases: List[Union["ClassInfo", External]] = field(default_factory=list)
    methods: Dict[str, FuncInfo] = field(default_factory=dict)  # plain name -> def (getter for properties)
    setters: Dict[str, FuncInfo] = field(default_factory=dict)
    class_attrs: Dict[str, ast.AST] = field(default_factory=dict)
    _mro: Optional[List[Union["ClassInfo", External]]] = None

    @property
    def key(self) -> Tuple[str, str]:
        return (self.module.name, self.qualname)

    @property
    def where(self) -> str:
        return "%s:%d" % (self.module.relpath, self.node.lineno)

    def __hash__(self):
        return id(self.node)

    def __eq__(self, other):
        return isinstance(other, ClassInfo) and other.node is self.node

    def __repr__(self):
        return "Class(%s.%s)" % (self.module.name, self.qualname)

    # ---- MRO (C3) -----------------------------------------------------------------------------
    def mro(self) -> List[Union["ClassInfo", External]]:
        if self._mro is None:
            self._mro = _c3(self)
        return self._mro

    def repo_mro(self) -> List["ClassInfo"]:
        return [c for c in self.mro() if isinstance(c, ClassInfo)]

    def external_bases(self) -> List[External]:
        return [c for c in self.mro() if isinstance(c, External)]

    def is_subclass_of(self, other: Union["ClassInfo", str]) -> bool:
        for c in self.mro():
            if isinstance(other, str):
                if isinstance(c, ClassInfo) and c.name == other:
                    return True
                if isinstance(c, External) and (c.dotted == other or c.name == other):
                    return True
            elif c == other:
                return True
        return False

    def lookup(self, name: str, after: Optional["ClassInfo"] = None) -> Optional[FuncInfo]:
        """First definition of `name` along the MRO (after class `after`, for super())."""
        seen_after = after is None
        for c in self.mro():
            if not seen_after:
                if c == after:
                    seen_after = True
                continue
            if isinstance(c, ClassInfo) and name in c.methods:
                return c.methods[name]
        return None

    def lookup_setter(self, name: str) -> Optional[FuncInfo]:
        for c in self.repo_mro():
            if name in c.setters:
                return c.setters[name]
        return None

    def lookup_attr(self, name: str) -> Optional[Tuple["ClassInfo", ast.AST]]:
        for c in self.repo_mro():
            if name in c.class_attrs:
                return c, c.class_attrs[name]
        return None

    def all_methods(self) -> Dict[str, FuncInfo]:
        out: Dict[str, FuncInfo] = {}
        for c in reversed(self.repo_mro()):
            out.update(c.methods)
        return out


def _c3(cls: ClassInfo) -> List[Union[ClassInfo, External]]:
    def merge(seqs):
        res = []
        seqs = [list(s) for s in seqs if s]
        while seqs:
            for s in seqs:
                cand = s[0]
                if not any(cand in t[1:] for t in seqs):
                    break
            else:
                # inconsistent hierarchy (should not occur) - fall back to first head
                cand = seqs[0][0]
            res.append(cand)
            seqs = [[x for x in s if x != cand] for s in seqs]
            seqs = [s for s in seqs if s]
        return res

    parents = cls.bases
    seqs = []
    for p in parents:
        if isinstance(p, ClassInfo):
            seqs.append(p.mro())
        else:
            seqs.append([p])
    seqs.append(list(parents))
    return [cls] + merge(seqs)


@dataclass
class ModuleInfo:
    name: str  # dotted, e.g. gpytorch.kernels.kernel
    path: str
    relpath: str
    tree: ast.Module
    source: str
    is_pkg: bool
    imports: Dict[str, Tuple[str, Optional[str]]] = field(default_factory=dict)  # local -> (module, attr)
    classes: Dict[str, ClassInfo] = field(default_factory=dict)
    functions: Dict[str, FuncInfo] = field(default_factory=dict)
    assigns: Dict[str, ast.AST] = field(default_factory=dict)
    all_names: Optional[List[str]] = None

    def __hash__(self):
        return hash(self.name)

    def __eq__(self, other):
        return isinstance(other, ModuleInfo) and other.name == self.name

    def __repr__(self):
        return "Module(%s)" % self.name


def canonicalise(tree: ast.AST) -> ast.AST:
    """Semantics-preserving normal form of the parsed source, applied before any rule looks at it, so that rules do not depend on
    two purely presentational choices:
      * `if not c: B else: A` (two-armed, no elif) is analysed as `if c: A else: B`;  `B if not c else A` as `A if c else B`;
      * `t = <expr>` immediately followed by `return t`, with no other use of t in the function, is analysed as `return <expr>`;
      * `t = <expr>` immediately followed by a statement whose first-evaluated leaf (callee / receiver / left operand) is the only
        other occurrence of t is analysed with <expr> substituted (`_c = a.f(); x = _c.g()` as `x = a.f().g()`).
    Node positions of the original statements are kept for reports."""

    class IfNorm(ast.NodeTransformer):
        def visit_If(self, n: ast.If):
            self.generic_visit(n)
            if n.orelse and not (len(n.orelse) == 1 and isinstance(n.orelse[0], ast.If)) and isinstance(n.test, ast.UnaryOp) and isinstance(n.test.op, ast.Not):
                n.test = n.test.operand
                n.body, n.orelse = n.orelse, n.body
            return n

        def visit_IfExp(self, n: ast.IfExp):
            self.generic_visit(n)
            if isinstance(n.test, ast.UnaryOp) and isinstance(n.test.op, ast.Not):
                n.test = n.test.operand
                n.body, n.orelse = n.orelse, n.body
            return n

    tree = IfNorm().visit(tree)

    def uses(fn: ast.AST, name: str) -> int:
        return sum(1 for x in ast.walk(fn) if isinstance(x, ast.Name) and x.id == name)

    def pairs_of(fn: ast.AST, name: str) -> int:
        k = 0
        for n in ast.walk(fn):
            for fld in ("body", "orelse", "finalbody"):
                v = getattr(n, fld, None)
                if isinstance(v, list):
                    for a, b in zip(v, v[1:]):
                        if isinstance(a, ast.Assign) and len(a.targets) == 1 and isinstance(a.targets[0], ast.Name) and a.targets[0].id == name \
                                and isinstance(b, ast.Return) and isinstance(b.value, ast.Name) and b.value.id == name and not any(isinstance(x, ast.Name) and x.id == name for x in ast.walk(a.value)):
                            k += 1
            for h in getattr(n, "handlers", []) or []:
                for a, b in zip(h.body, h.body[1:]):
                    if isinstance(a, ast.Assign) and len(a.targets) == 1 and isinstance(a.targets[0], ast.Name) and a.targets[0].id == name \
                            and isinstance(b, ast.Return) and isinstance(b.value, ast.Name) and b.value.id == name and not any(isinstance(x, ast.Name) and x.id == name for x in ast.walk(a.value)):
                        k += 1
        return k

    foldable_cache = {}

    def foldable(fn: ast.AST, name: str) -> bool:
        key = (id(fn), name)
        if key not in foldable_cache:
            foldable_cache[key] = uses(fn, name) == 2 * pairs_of(fn, name) and pairs_of(fn, name) > 0
        return foldable_cache[key]

    def fold(stmts: list, fn: ast.AST) -> list:
        out = []
        i = 0
        while i < len(stmts):
            st = stmts[i]
            nxt = stmts[i + 1] if i + 1 < len(stmts) else None
            if isinstance(st, ast.Assign) and len(st.targets) == 1 and isinstance(st.targets[0], ast.Name) and isinstance(nxt, ast.Return) \
                    and isinstance(nxt.value, ast.Name) and nxt.value.id == st.targets[0].id and foldable(fn, st.targets[0].id):
                r = ast.Return(value=st.value)
                ast.copy_location(r, st)
                out.append(r)
                i += 2
                continue
            out.append(st)
            i += 1
        return out

    def head(e: ast.AST):
        """the sub-expression evaluated first: follow callee / receiver / left operand down to a leaf; returns (parent, field)"""
        parent, fld = None, None
        while True:
            if isinstance(e, ast.Call):
                parent, fld, e = e, "func", e.func
            elif isinstance(e, ast.Attribute):
                parent, fld, e = e, "value", e.value
            elif isinstance(e, ast.Subscript):
                parent, fld, e = e, "value", e.value
            elif isinstance(e, ast.BinOp):
                parent, fld, e = e, "left", e.left
            else:
                return parent, fld, e

    def fold_heads(stmts: list, fn: ast.AST) -> list:
        """`t = E` directly followed by a statement whose first-evaluated leaf is the only other occurrence of t: substitute
        (evaluation order is unchanged because the leaf is what that statement evaluates first)"""
        out = list(stmts)
        changed = True
        while changed:
            changed = False
            for i in range(len(out) - 1):
                a, b = out[i], out[i + 1]
                if not (isinstance(a, ast.Assign) and len(a.targets) == 1 and isinstance(a.targets[0], ast.Name)):
                    continue
                t = a.targets[0].id
                if not isinstance(b, (ast.Assign, ast.Return, ast.Expr)) or b.value is None or uses(fn, t) != 2:
                    continue
                if any(isinstance(x, ast.Name) and x.id == t for x in ast.walk(a.value)):
                    continue
                parent, fld, leaf = head(b.value)
                if isinstance(leaf, ast.Name) and leaf.id == t and isinstance(leaf.ctx, ast.Load):
                    if parent is None:
                        b.value = a.value
                    else:
                        setattr(parent, fld, a.value)
                    del out[i]
                    changed = True
                    break
        return out

    for fn in [n for n in ast.walk(tree) if isinstance(n, (ast.FunctionDef, ast.AsyncFunctionDef))]:
        for n in ast.walk(fn):
            if n is not fn and isinstance(n, (ast.FunctionDef, ast.AsyncFunctionDef, ast.ClassDef)):
                continue
            for fld in ("body", "orelse", "finalbody"):
                v = getattr(n, fld, None)
                if isinstance(v, list) and v and isinstance(v[0], ast.stmt):
                    setattr(n, fld, fold_heads(fold(v, fn), fn))
            for h in getattr(n, "handlers", []) or []:
                h.body = fold_heads(fold(h.body, fn), fn)
    return tree


class ProgramIndex:
    def __init__(self, repo: str, package: str = "gpytorch", exclude: Iterable[str] = ("gpytorch/test",),
                 extra_files: Optional[Dict[str, str]] = None):
        self.repo = os.path.abspath(repo)
        self.package = package
        self.modules: Dict[str, ModuleInfo] = {}
        self.classes: Dict[Tuple[str, str], ClassInfo] = {}
        self.by_name: Dict[str, List[ClassInfo]] = {}
        self.files = 0
        self._load_package(os.path.join(self.repo, package), package, exclude)
        for modname, path in (extra_files or {}).items():
            self.load_file(path, modname, False, path)
        self._resolve_all()

    def load_source(self, modname: str, source: str, is_pkg: bool = False) -> ModuleInfo:
        """Add an in-memory module (positive-control fragments)."""
        try:
            tree = canonicalise(ast.parse(source))
        except SyntaxError as e:
            raise AnalysisError("cannot parse control fragment %s: %s" % (modname, e))
        mi = ModuleInfo(modname, "<%s>" % modname, "<%s>" % modname, tree, source, is_pkg)
        self.modules[modname] = mi
        self._scan_module(mi)
        self._resolve_all()
        return mi

    # ---- loading --------------------------------------------------------------------------------
    def _load_package(self, root: str, package: str, exclude: Iterable[str]):
        if not os.path.isdir(root):
            raise AnalysisError("package directory %s not found" % root)
        excl = [os.path.join(self.repo, e) for e in exclude]
        for dirpath, dirnames, filenames in os.walk(root):
            dirnames[:] = sorted(d for d in dirnames if d != "__pycache__")
            if any(dirpath == e or dirpath.startswith(e + os.sep) for e in excl):
                continue
            for fn in sorted(filenames):
                if not fn.endswith(".py"):
                    continue
                path = os.path.join(dirpath, fn)
                rel = os.path.relpath(path, os.path.dirname(root))
                parts = rel[:-3].split(os.sep)
                is_pkg = parts[-1] == "__init__"
                if is_pkg:
                    parts = parts[:-1]
                self.load_file(path, ".".join(parts), is_pkg, os.path.relpath(path, self.repo))

    def load_file(self, path: str, modname: str, is_pkg: bool, relpath: Optional[str] = None) -> ModuleInfo:
        with open(path, "r", encoding="utf-8") as fh:
            source = fh.read()
        try:
            with warnings.catch_warnings():
                warnings.simplefilter("ignore")
                tree = canonicalise(ast.parse(source, filename=path))
        except SyntaxError as e:
            raise AnalysisError("cannot parse %s: %s" % (path, e))
        mi = ModuleInfo(modname, path, relpath or path, tree, source, is_pkg)
        self.modules[modname] = mi
        self.files += 1
        self._scan_module(mi)
        return mi

    def _scan_module(self, mi: ModuleInfo):
        def scan_body(body, cls_prefix: Optional[ClassInfo]):
            for st in body:
                if isinstance(st, (ast.Import, ast.ImportFrom)) and cls_prefix is None:
                    self._scan_import(mi, st)
                elif isinstance(st, ast.ClassDef):
                    qn = (cls_prefix.qualname + "." if cls_prefix else "") + st.name
                    ci = ClassInfo(mi, st.name, qn, st, list(st.bases))
                    if cls_prefix is None:
                        mi.classes[st.name] = ci
                    self.classes[(mi.name, qn)] = ci
                    self.by_name.setdefault(st.name, []).append(ci)
                    self._scan_class(mi, ci)
                    scan_body(st.body, ci)
                elif isinstance(st, (ast.FunctionDef, ast.AsyncFunctionDef)) and cls_prefix is None:
                    mi.functions[st.name] = FuncInfo(mi, None, st.name, st, [src(d) for d in st.decorator_list], "function")
                elif isinstance(st, ast.Assign) and cls_prefix is None:
                    for t in st.targets:
                        if isinstance(t, ast.Name):
                            mi.assigns[t.id] = st.value
                            if t.id == "__all__" and isinstance(st.value, (ast.List, ast.Tuple)):
                                mi.all_names = [const_str(e) for e in st.value.elts if const_str(e) is not None]
                elif isinstance(st, (ast.If, ast.Try)) and cls_prefix is None:
                    # imports under try/except or TYPE_CHECKING
                    for sub in ast.iter_child_nodes(st):
                        if isinstance(sub, (ast.Import, ast.ImportFrom)):
                            self._scan_import(mi, sub)
                        elif isinstance(sub, ast.ExceptHandler):
                            for s2 in sub.body:
                                if isinstance(s2, (ast.Import, ast.ImportFrom)):
                                    self._scan_import(mi, s2)
                    for attr in ("body", "orelse", "finalbody"):
                        scan_body([s for s in getattr(st, attr, []) if isinstance(s, (ast.ClassDef, ast.FunctionDef, ast.Assign))], None)

        scan_body(mi.tree.body, None)

    def _scan_import(self, mi: ModuleInfo, st):
        if isinstance(st, ast.Import):
            for a in st.names:
                if a.asname:
                    mi.imports[a.asname] = (a.name, None)
                else:
                    top = a.name.split(".")[0]
                    mi.imports[top] = (top, None)
        else:
            if st.level:
                base = mi.name.split(".")
                if not mi.is_pkg:
                    base = base[:-1]
                if st.level > 1:
                    base = base[: len(base) - (st.level - 1)]
                modname = ".".join(base + ([st.module] if st.module else []))
            else:
                modname = st.module or ""
            for a in st.names:
                if a.name == "*":
                    mi.imports.setdefault("*", (modname, "*"))
                    mi.imports["*:" + modname] = (modname, "*")
                    continue
                mi.imports[a.asname or a.name] = (modname, a.name)

    def _scan_class(self, mi: ModuleInfo, ci: ClassInfo):
        for st in ci.node.body:
            if isinstance(st, (ast.FunctionDef, ast.AsyncFunctionDef)):
                decs = [src(d) for d in st.decorator_list]
                kind = "method"
                is_setter = False
                for d in st.decorator_list:
                    dn = chain(d) if not isinstance(d, ast.Call) else chain(d.func)
                    if dn == "property" or (dn and dn.endswith("cached_property")):
                        kind = "property"
                    elif dn == "staticmethod":
                        kind = "staticmethod"
                    elif dn == "classmethod":
                        kind = "classmethod"
                    elif dn and dn.endswith(".setter"):
                        is_setter = True
                    elif dn and dn.endswith(".deleter"):
                        is_setter = True
                fi = FuncInfo(mi, ci, st.name, st, decs, "setter" if is_setter else kind)
                if is_setter:
                    if any((chain(d) or "").endswith(".setter") for d in st.decorator_list):
                        ci.setters[st.name] = fi
                else:
                    ci.methods[st.name] = fi
            elif isinstance(st, ast.Assign):
                for t in st.targets:
                    if isinstance(t, ast.Name):
                        ci.class_attrs[t.id] = st.value
            elif isinstance(st, ast.AnnAssign) and isinstance(st.target, ast.Name) and st.value is not None:
                ci.class_attrs[st.target.id] = st.value

    # ---- resolution -----------------------------------------------------------------------------
    def _resolve_all(self):
        for ci in list(self.classes.values()):
            ci.bases = []
            for b in ci.base_exprs:
                r = self.resolve_expr(ci.module, b)
                if isinstance(r, ClassInfo):
                    ci.bases.append(r)
                elif isinstance(r, External):
                    ci.bases.append(r)
                else:
                    ci.bases.append(External(src(b)))
            ci._mro = None

    def resolve_name(self, mi: ModuleInfo, name: str, _depth=0):
        """Resolve a bare name in module scope to ClassInfo | FuncInfo | ModuleInfo | External | ('assign', node) | None.
        The *last* binding in the module wins for classes/functions defined locally (as Python does)."""
        if _depth > 12:
            return None
        if name in mi.classes:
            return mi.classes[name]
        if name in mi.functions:
            return mi.functions[name]
        if name in mi.imports:
            modname, attr = mi.imports[name]
            return self._resolve_import(modname, attr, _depth)
        if name in mi.assigns:
            return ("assign", mi.assigns[name], mi)
        # star imports
        for k, (modname, attr) in mi.imports.items():
            if attr == "*" and modname in self.modules:
                r = self.resolve_name(self.modules[modname], name, _depth + 1)
                if r is not None:
                    return r
        return None

    def _resolve_import(self, modname: str, attr: Optional[str], _depth=0):
        if attr is None:
            if modname in self.modules:
                return self.modules[modname]
            return External(modname)
        sub = modname + "." + attr if modname else attr
        if sub in self.modules:
            return self.modules[sub]
        if modname in self.modules:
            r = self.resolve_name(self.modules[modname], attr, _depth + 1)
            if r is not None:
                return r
            return External(sub)
        return External(sub)

    def resolve_expr(self, mi: ModuleInfo, expr: ast.AST):
        """Resolve a Name / dotted Attribute chain evaluated at module scope."""
        c = chain(expr)
        if c is None:
            if isinstance(expr, ast.Subscript):  # Generic[...] etc
                return self.resolve_expr(mi, expr.value)
            return None
        parts = c.split(".")
        cur = self.resolve_name(mi, parts[0])
        if cur is None:
            return None
        for p in parts[1:]:
            if isinstance(cur, ModuleInfo):
                sub = cur.name + "." + p
                nxt = self.resolve_name(cur, p)
                if nxt is None and sub in self.modules:
                    nxt = self.modules[sub]
                cur = nxt
            elif isinstance(cur, External):
                cur = External(cur.dotted + "." + p)
            elif isinstance(cur, ClassInfo):
                m = cur.lookup(p)
                if m is not None:
                    cur = m
                else:
                    a = cur.lookup_attr(p)
                    if a is None:
                        return None
                    r = self.resolve_expr(a[0].module, a[1])
                    cur = r if r is not None else ("assign", a[1], a[0].module)
            else:
                return None
            if cur is None:
                return None
        return cur

    # ---- queries --------------------------------------------------------------------------------
    def module(self, name: str) -> ModuleInfo:
        if name not in self.modules:
            raise AnalysisError("anchor vanished: module %s" % name)
        return self.modules[name]

    def cls(self, modname: str, qualname: str) -> ClassInfo:
        k = (modname, qualname)
        if k not in self.classes:
            raise AnalysisError("anchor vanished: class %s.%s" % k)
        return self.classes[k]

    def find_class(self, name: str) -> ClassInfo:
        """Unique class by short name among the package's classes."""
        cands = [c for c in self.by_name.get(name, []) if c.module.name.startswith(self.package)]
        if len(cands) != 1:
            raise AnalysisError("anchor vanished or ambiguous: class %s (%d candidates)" % (name, len(cands)))
        return cands[0]

    def method(self, cls: ClassInfo, name: str, own: bool = False) -> FuncInfo:
        m = cls.methods.get(name) if own else cls.lookup(name)
        if m is None:
            raise AnalysisError("anchor vanished: method %s.%s" % (cls.qualname, name))
        return m

    def function(self, modname: str, name: str) -> FuncInfo:
        mi = self.module(modname)
        if name not in mi.functions:
            raise AnalysisError("anchor vanished: function %s.%s" % (modname, name))
        return mi.functions[name]

    def package_classes(self) -> List[ClassInfo]:
        return [c for c in self.classes.values() if c.module.name.startswith(self.package)]

    def subclasses(self, base: Union[ClassInfo, str], strict: bool = False) -> List[ClassInfo]:
        out = []
        for c in self.package_classes():
            if strict and (c == base or (isinstance(base, str) and c.name == base)):
                continue
            if c.is_subclass_of(base):
                out.append(c)
        return sorted(out, key=lambda c: (c.module.name, c.qualname))

    def all_functions(self) -> List[FuncInfo]:
        out = []
        for mi in self.modules.values():
            if not mi.name.startswith(self.package):
                continue
            out.extend(mi.functions.values())
        for c in self.package_classes():
            out.extend(c.methods.values())
            out.extend(c.setters.values())
        return out

    def resolve_super_call(self, fi: FuncInfo, concrete: ClassInfo, name: str) -> Optional[FuncInfo]:
        """`super().name` inside method `fi` (defined in fi.cls) when the runtime class is `concrete`."""
        return concrete.lookup(name, after=fi.cls)

    def stats(self) -> Dict[str, int]:
        pk = self.package_classes()
        return {
            "files": self.files,
            "classes": len(pk),
            "functions": len(self.all_functions()),
        }


def is_super_call(call: ast.Call, name: Optional[str] = None) -> bool:
    """`super().name(...)` or `super(C, self).name(...)`."""
    f = call.func
    if not isinstance(f, ast.Attribute):
        return False
    if name is not None and f.attr != name:
        return False
    v = f.value
    return isinstance(v, ast.Call) and isinstance(v.func, ast.Name) and v.func.id == "super"


def find_site_packages_file(relative: str) -> Optional[str]:
    """Locate a third-party source file by path search only (never imported)."""
    cands = []
    for p in sys.path:
        if p and os.path.isdir(p):
            cands.append(p)
    cands.append(os.path.join(sys.prefix, "lib", "python%d.%d" % sys.version_info[:2], "site-packages"))
    import glob

    cands += sorted(glob.glob("/venv/lib/python3*/site-packages"))
    for p in cands:
        f = os.path.join(p, relative)
        if os.path.isfile(f):
            return f
    return None
