"""CLI: ./check <id> [--tier quick|thorough] [--replay file] [--repo /repo]"""
from __future__ import annotations

import argparse
import importlib
import json
import os
import sys
import time
import traceback

from .index import AnalysisError, ProgramIndex
from .report import Report, VIOLATED

CLAIMED = ["C%02d" % i for i in range(1, 21)]


def build_index(repo: str) -> ProgramIndex:
    return ProgramIndex(repo)


def run_property(prop: str, tier: str, repo: str, quiet: bool = False, selfcheck: bool = True):
    mod = importlib.import_module("sa.rules.%s" % prop.lower())
    extra = {}
    for modname, rel in getattr(mod, "EXTRA_FILES", {}).items():
        from .index import find_site_packages_file
        path = find_site_packages_file(rel)
        if path is None:
            raise AnalysisError("third-party source %s not found next to the interpreter" % rel)
        extra[modname] = path
    idx = ProgramIndex(repo, extra_files=extra)
    rep = Report(prop, tier, repo)
    rep.analysed["files parsed"] = idx.files
    rep.analysed.update({"classes indexed": idx.stats()["classes"], "functions indexed": idx.stats()["functions"]})
    mod.run(idx, rep, tier)
    return idx, rep


def main(argv=None) -> int:
    ap = argparse.ArgumentParser()
    ap.add_argument("prop")
    ap.add_argument("--tier", default=os.environ.get("VERIF_TIER", "quick"), choices=["quick", "thorough"])
    ap.add_argument("--replay")
    ap.add_argument("--repo", default=os.environ.get("VERIF_REPO", "/repo"))
    ap.add_argument("--no-selfcheck", action="store_true")
    ap.add_argument("--list", action="store_true", help="print every obligation")
    ap.add_argument("--json", action="store_true", help="print obligations as JSON (used by the self-validation driver)")
    args = ap.parse_args(argv)
    seed = int(os.environ.get("VERIF_SEED", "0") or 0)
    prop = args.prop.upper()
    if prop == "--SETUP" or prop == "SETUP":
        return 0
    try:
        if not os.path.isfile(os.path.join(os.path.dirname(__file__), "rules", prop.lower() + ".py")):
            print("ANALYSIS-ERROR property=%s no checker for this property" % prop)
            return 2
        idx, rep = run_property(prop, args.tier, args.repo)
        if args.json:
            from dataclasses import asdict
            print(json.dumps([asdict(o) for o in rep.obligations], default=str))
            return 0
        if args.list:
            for o in rep.obligations:
                print("%-11s %-8s %s @ %s: %s" % (o.status, o.rule, o.instance, o.where, o.detail))
        if args.replay:
            with open(args.replay) as fh:
                r = json.load(fh)
            want = r["obligation"]
            hits = [o for o in rep.obligations if o.rule == want["rule"] and o.instance == want["instance"]]
            if not hits:
                print("replay: obligation %s %s no longer exists on this tree" % (want["rule"], want["instance"]))
                return 2
            rc = 0
            for o in hits:
                print("replay: %s instance=%s @ %s -> %s: %s" % (o.rule, o.instance, o.where, o.status, o.detail))
                print("        facts: %s" % json.dumps(o.facts, default=str))
                if o.status == VIOLATED:
                    print("VIOLATION property=%s replay=%s" % (prop, args.replay))
                    rc = 1
            return rc
        if args.tier == "thorough" and not args.no_selfcheck:
            from .selfcheck import self_validate
            rep.selfcheck = self_validate(prop, args.repo, rep)
        return rep.finish(seed)
    except AnalysisError as e:
        print("ANALYSIS-ERROR property=%s %s" % (prop, e))
        return 2
    except Exception:
        traceback.print_exc()
        print("ANALYSIS-ERROR property=%s checker crashed" % prop)
        return 2


if __name__ == "__main__":
    sys.exit(main())
