"""Class-local call resolution: `self.m()`, `self.prop`, `super().m()`, per concrete class (exact for single
dispatch on self), plus module-level function calls."""
from __future__ import annotations

import ast
from typing import Dict, Iterator, List, Optional, Set, Tuple

from .index import ClassInfo, FuncInfo, ProgramIndex, chain, is_super_call, walk_no_nested


def self_name(fi: FuncInfo) -> Optional[str]:
    if fi.cls is None or fi.kind == "staticmethod":
        return None
    p = fi.params
    return p[0] if p else None


def self_members_used(idx: ProgramIndex, concrete: ClassInfo, fi: FuncInfo) -> Iterator[Tuple[ast.AST, str, FuncInfo, str]]:
    """Yield (node, member name, resolved FuncInfo, how) for every use of a method/property of `self` in fi.
    how in {'call', 'prop', 'super', 'ref'}"""
    sn = self_name(fi)
    call_funcs = set()
    for n in walk_no_nested(fi.node):
        if isinstance(n, ast.Call):
            call_funcs.add(id(n.func))
            if is_super_call(n):
                t = concrete.lookup(n.func.attr, after=fi.cls)
                if t is not None:
                    yield n, n.func.attr, t, "super"
            elif isinstance(n.func, ast.Attribute) and isinstance(n.func.value, ast.Name) and n.func.value.id == sn:
                t = concrete.lookup(n.func.attr)
                if t is not None:
                    yield n, n.func.attr, t, "call"
    for n in walk_no_nested(fi.node):
        if isinstance(n, ast.Attribute) and isinstance(n.ctx, ast.Load) and id(n) not in call_funcs:
            if isinstance(n.value, ast.Name) and n.value.id == sn:
                t = concrete.lookup(n.attr)
                if t is not None:
                    yield n, n.attr, t, "prop" if t.kind == "property" else "ref"
            elif isinstance(n.value, ast.Call) and isinstance(n.value.func, ast.Name) and n.value.func.id == "super":
                t = concrete.lookup(n.attr, after=fi.cls)
                if t is not None and t.kind == "property":
                    yield n, n.attr, t, "super"


def reachable_self_functions(idx: ProgramIndex, concrete: ClassInfo, roots: List[FuncInfo], limit: int = 400) -> List[FuncInfo]:
    """Transitive closure of self-calls / property reads / super() calls, starting at `roots`."""
    seen: List[FuncInfo] = []
    todo = list(roots)
    while todo:
        f = todo.pop()
        if f in seen:
            continue
        seen.append(f)
        if len(seen) > limit:
            break
        for _, _, t, _ in self_members_used(idx, concrete, f):
            if t not in seen:
                todo.append(t)
    return seen


def concrete_classes_using(idx: ProgramIndex, owner: ClassInfo, method: str) -> List[ClassInfo]:
    """Concrete classes (owner and subclasses) whose effective `method` is owner's definition."""
    out = []
    for c in idx.subclasses(owner):
        m = c.lookup(method)
        if m is not None and m.cls == owner:
            out.append(c)
    return out
