"""Path-sensitive symbolic inlining of local definitions.

`walk_paths(fi)` enumerates the acyclic paths of a function (loops 0/1 times) and, for every statement on a path, yields the
statement together with the environment that holds *before* it: local name -> defining expression with all earlier local
definitions already substituted (so an environment value mentions only parameters, attributes, calls and names that were never
assigned on this path).  This is what rules need when a name is re-bound (`x = f(x)`), where a flow-insensitive "all definitions
of x" view confuses the definition before and after the site that is being judged.
"""
from __future__ import annotations

import ast
import copy
from typing import Dict, Iterator, List, Optional, Tuple

from .cfg import Path, enumerate_paths
from .index import FuncInfo, body_without_docstring, src

MAX_NODES = 4000


class _Inline(ast.NodeTransformer):
    def __init__(self, env: Dict[str, ast.AST]):
        self.env = env

    def visit_Name(self, n: ast.Name):
        if isinstance(n.ctx, ast.Load) and n.id in self.env and self.env[n.id] is not None:
            return copy.deepcopy(self.env[n.id])
        return n

    def visit_Lambda(self, n):
        return n  # parameters shadow; leave lambdas alone

    def visit_ListComp(self, n):
        return self._comp(n)

    visit_GeneratorExp = visit_SetComp = visit_DictComp = visit_ListComp

    def _comp(self, n):
        bound = {x.id for g in n.generators for x in ast.walk(g.target) if isinstance(x, ast.Name)}
        saved = {k: self.env[k] for k in bound if k in self.env}
        for k in saved:
            del self.env[k]
        try:
            return self.generic_visit(n)
        finally:
            self.env.update(saved)


def inline(e: ast.AST, env: Dict[str, ast.AST]) -> ast.AST:
    out = _Inline(env).visit(copy.deepcopy(e))
    if sum(1 for _ in ast.walk(out)) > MAX_NODES:
        return e  # give up substituting rather than blow up; callers see the un-inlined name
    return ast.fix_missing_locations(out)


def _bind(env: Dict[str, ast.AST], target: ast.AST, value: Optional[ast.AST]):
    if isinstance(target, ast.Name):
        env[target.id] = value
    elif isinstance(target, (ast.Tuple, ast.List)):
        if isinstance(value, (ast.Tuple, ast.List)) and len(value.elts) == len(target.elts) and not any(isinstance(x, ast.Starred) for x in target.elts):
            for t, v in zip(target.elts, value.elts):
                _bind(env, t, v)
        else:
            star = [i for i, t in enumerate(target.elts) if isinstance(t, ast.Starred)]
            n = len(target.elts)
            for i, t in enumerate(target.elts):
                if isinstance(t, ast.Starred):
                    _bind(env, t.value, None)
                    continue
                # elements after a starred target are counted from the end
                k = i if not star or i < star[0] else i - n
                ix = ast.Constant(value=k) if k >= 0 else ast.UnaryOp(op=ast.USub(), operand=ast.Constant(value=-k))
                _bind(env, t, None if value is None else ast.Subscript(value=value, slice=ix, ctx=ast.Load()))
    elif isinstance(target, ast.Starred):
        _bind(env, target.value, None)


def walk_paths(fi: FuncInfo, limit: int = 20000) -> Iterator[Tuple[Path, List[Tuple[ast.AST, Dict[str, ast.AST]]]]]:
    """for every path: (path, [(statement, environment before it)]) - environments are snapshots (dict copies)"""
    for p in enumerate_paths(body_without_docstring(fi.node), limit=limit):
        env: Dict[str, ast.AST] = {}
        seq: List[Tuple[ast.AST, Dict[str, ast.AST]]] = []
        for s in p.steps:
            if s.kind == "assume":
                seq.append((s, dict(env)))
                continue
            if s.kind not in ("stmt", "partial"):
                continue
            st = s.node
            seq.append((st, dict(env)))
            if isinstance(st, ast.Assign):
                v = st.value
                if isinstance(v, ast.Call) and isinstance(v.func, ast.Name) and v.func.id == "__iter_item__":
                    val = ast.Call(func=ast.Name(id="__iter_item__", ctx=ast.Load()), args=[inline(v.args[0], env)], keywords=[])
                else:
                    val = inline(v, env)
                for t in st.targets:
                    _bind(env, t, val)
            elif isinstance(st, ast.AnnAssign) and st.value is not None:
                _bind(env, st.target, inline(st.value, env))
            elif isinstance(st, ast.AugAssign) and isinstance(st.target, ast.Name):
                cur = env.get(st.target.id) or ast.Name(id=st.target.id, ctx=ast.Load())
                env[st.target.id] = ast.BinOp(left=copy.deepcopy(cur), op=st.op, right=inline(st.value, env))
            elif isinstance(st, (ast.With, ast.AsyncWith)):
                for it in st.items:
                    if it.optional_vars is not None:
                        _bind(env, it.optional_vars, None)
        yield p, seq



def expand_hook(cls, call: ast.AST, ctor_names=("self.__class__", "type(self)")) -> ast.AST:
    """`self.m(a, b, k=c)` where m (resolved on cls) does nothing but `return <constructor>(...its parameters...)` -> the constructor call
    with the arguments substituted.  Anything else is returned unchanged.  (Construction hooks such as MultivariateNormal._new_like.)"""
    if not (isinstance(call, ast.Call) and isinstance(call.func, ast.Attribute) and isinstance(call.func.value, ast.Name) and call.func.value.id == "self"):
        return call
    m = cls.lookup(call.func.attr) if cls is not None else None
    if m is None:
        return call
    body = body_without_docstring(m.node)
    if len(body) != 1 or not isinstance(body[0], ast.Return) or not isinstance(body[0].value, ast.Call):
        return call
    inner = body[0].value
    if src(inner.func) not in ctor_names and src(inner.func) != cls.name:
        return call
    params = m.params[1:]
    env: Dict[str, ast.AST] = {}
    for i, a in enumerate(call.args):
        if isinstance(a, ast.Starred) or i >= len(params):
            return call
        env[params[i]] = a
    for k in call.keywords:
        if k.arg is None or k.arg not in params:
            return call
        env[k.arg] = k.value
    if set(env) != set(params):
        return call
    return inline(inner, env)
