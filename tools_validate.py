#!/usr/bin/env python3
"""Validate MANIFEST.json and every evidence file against the schemas (run with python3-vt)."""
import json, sys, glob
import jsonschema
ok = True
m = json.load(open('/verif/MANIFEST.json'))
jsonschema.validate(m, json.load(open('/root/.vp/MANIFEST.schema.json')))
es = json.load(open('/root/.vp/EVIDENCE.schema.json'))
for c in m['checks']:
    try:
        jsonschema.validate(json.load(open(c['evidence_file'])), es)
    except Exception as e:
        ok = False
        print('BAD', c['evidence_file'], str(e)[:200])
print('manifest ok; evidence', 'ok' if ok else 'BAD')
sys.exit(0 if ok else 1)
