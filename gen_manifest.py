#!/usr/bin/env python3
"""Regenerates MANIFEST.json from the table below (claimed = a checker module exists in sa/rules)."""
import json
import os

HERE = os.path.dirname(os.path.abspath(__file__))

NOTE = ("Static analysis only: the deciding step parses /repo's working tree with CPython `ast` on every run, never imports or "
        "executes gpytorch. Trusted base: the CPython parser, the sa/ engine, the frozen tables in the rule module (one reason "
        "per entry), and the necessity argument for each rule in DESIGN.md section 4. Decides the named structural clause, "
        "not the numerical behaviour.")

CLAIMS = {
    "C01": ("abstract block-range typing + path/scope analysis (ast)",
            "Decides the structural clauses of the exact-posterior computation: in every exact_prediction implementation the predictive mean receives the TEST slice of the joint mean and the TEST x TRAIN block, the predictive covariance the TEST x TEST and TEST x TRAIN blocks (abstract block typing of subscripts bounded by num_train), train-first concatenation agrees with the num_train split, the prediction runs inside the eval CG-tolerance scope and the mode dispatch is total and ordered. Does not decide the numerical identity with the closed-form conditional."),
    "C02": ("affine-form abstract interpretation of the objective assembly (ast)",
            "Decides the assembly of the exact MLL / LOO / Sum-MLL objectives: the returned scalar is (+1 log_prob +1 sum(added loss) +1 sum(prior.log_prob(closure(module)))) / num_data with num_data derived from the event shape; LOO reuses the same other-terms; Sum-MLL divides the member sum by len(mlls). Does not decide log_prob values or gradients."),
    "C03": ("cache inventory + must-pass-through + keyed-or-validated memo analysis (ast, call graph over MRO)",
            "Decides the cache-invalidation discipline that history-independence needs: every persistent cache store has an invalidation path, every invalidation entry point (train/eval switch, load_state_dict, set_train_data, training-mode variational call) clears on every path, overrides chain, and memo entries that depend on settings or ignore their arguments are keyed or validated by every consumer. For all histories through those constructs; does not decide numerical equality with a fresh model."),
    "C04": ("save/null/restore pairing, effect confinement and concatenation-order analysis (ast)",
            "Decides 'source untouched' structurally: attributes nulled around deepcopy are restored on every normal path from the captured locals, the fantasy path writes only to objects it created, and old data/noise are concatenated before new. Does not decide the Schur-complement numerics."),
    "C05": ("composition-clause analysis of Additive/Product/Scale/LCM kernels (ast)",
            "Decides ONLY the composition clause of C05 ('sums, products and scalings of kernels evaluate to the sums, products and scalings of their parts'): Additive/Product kernels combine every member kernel, evaluated through __call__ on the same (x1, x2, diag, **params), with + / * and nothing else; k1 + k2 / k1 * k2 pass both operands; ScaleKernel is base value x constrained outputscale; LCMKernel sums all member multitask kernels. The covariance formulae of the individual kernels and the derivative kernels are equalities of real-valued functions and are NOT decided."),
    "C06": ("who-may-apply active_dims, shape-prefix domain, constructor-completeness at lazy re-construction sites (ast)",
            "Decides the active_dims discipline (single application point, no bypass of Kernel.__call__ without taking over the member's active_dims, never batch-transformed, temporary nulling restored), completeness of every LazyEvaluatedKernelTensor re-construction and the transpose swap. Does not decide numerical equality of diag/full paths."),
    "C07": ("clamp-on-every-return-path and lower-bounded-constraint analysis (ast)",
            "Decides the lower-bound clauses only: every variance of the MultivariateNormal hierarchy reaches the caller through the min_variance clamp, squared distances through clamp_min(0), fixed noise through min_fixed_noise, every learned noise has a lower-bounded default constraint. Does not decide PSD-ness."),
    "C08": ("shape-prefix domain on registrations, reduction-axis lint, container routing (ast)",
            "Decides batch-shape discipline: parameters of kernels/means/noise models are registered with a *batch_shape prefix, reductions in forward use negative dims, list containers route member i to argument i and average by len. Does not decide value equality with replicas."),
    "C09": ("operand-provenance analysis of Kronecker products against the layout convention; IndexKernel representation agreement (ast)",
            "Decides ONLY the abbreviation-structure clauses of C09: the Kronecker product in MultitaskKernel is K_data (x) K_task (the interleaved layout of the multitask distribution) and the multitask likelihood's noise is I_n (x) D_t when interleaved and D_t (x) I_n otherwise; IndexKernel's dense form B B^T + diag(v) and operator form Root(B) + Diag(v) use the same factor and constrained variance, rows i1 / columns i2; MultitaskKernel evaluates the data kernel on (x1, x2). Equality of structured and dense linear algebra, SGPR/KISS-GP/RFF predictive equations and interpolation accuracy are numerical and NOT decided."),
    "C10": ("affine-form abstract interpretation of MultivariateNormal arithmetic; structural index-agreement check (ast)",
            "Decides ONLY the arithmetic/indexing clause of C10: X+Y -> (m+m', C+C'), X+c -> (m+c, C), X*c -> (cm, c^2 C), X/c = X*(1/c), add_jitter changes the covariance only, confidence_region = mean -/+ 2 stddev, __getitem__ applies the event index to the mean and to both covariance axes, expand/unsqueeze act on both alike. log_prob, KL, rsample and sample moments are numerical and NOT decided."),
    "C11": ("stride-unit type system for the flattened index arithmetic, layout-twin table (ast)",
            "Decides that the flattened-index arithmetic of MultitaskMultivariateNormal.__getitem__ is stride-unit consistent and that every layout-sensitive accessor has the non-interleaved twin. Does not decide log_prob values."),
    "C12": ("affine additive-once form, keyword-flow to noise models, list routing (ast)",
            "Decides that noise is added once and to the right member: every marginal is input covariance + exactly one shaped-noise term with the mean unchanged and the input's class, the call-time noise keyword reaches exactly one honouring noise model where several are summed, list containers forward per-member keywords as keywords. Does not decide expected_log_prob numerics."),
    "C14": ("KL argument-order provenance and training-mode cache reset at every __call__ override (ast)",
            "Thin claim: q is the first and the prior the second argument at every KL site, wrapper strategies reduce the base KL over the task/latent dimension only, every __call__ override keeps the training-mode cache reset. Does not decide the predictive equations."),
    "C15": ("affine-form abstract interpretation of the ELBO/PLL assembly (ast)",
            "Decides the assembly (+1/B LL - beta/N KL + 1/N sum(prior) - sum(added loss)) with the provenance of B, N, beta, for the combined and un-combined returns, and that the NGD step scales by num_data. Does not decide the bound or NGD optimality."),
    "C16": ("policy exhaustiveness, same-mask provenance, policy-keyed cache, override coverage (ast)",
            "Decides that every consumer of observation_nan_policy handles all three policies, the mask branches index mean, every train-indexed covariance axis and the targets with the same mask, the mean cache is keyed by the policy, and every prediction-strategy override of the mean path handles or rejects the policy. Does not decide equality with data deletion."),
    "C17": ("symbolic-interval abstract interpretation + rewriting for transform/inverse, wiring table cross-check (ast)",
            "Decides (a) range of the four constraint transforms inside [lower, upper], monotonicity and inverse_transform(transform)=id by symbolic intervals and term rewriting; (b) the wiring table of every constrained parameter (getter/setter/closure/constraint/raw-name agreement); (c) the bound check on both initialize paths; (d) prior closures are value-typed. Does not decide prior densities."),
    "C18": ("registration/buffer inventory, runtime-store classification, getstate/deepcopy completeness (ast)",
            "Decides what the persistence mechanisms carry: prior/constraint/flag parameters are registered buffers, runtime-mutated prediction-relevant attributes are buffers, __getstate__/__deepcopy__ drop only caches, load clears caches. Does not decide bit-equality of predictions."),
    "C19": ("storage/version abstract interpretation of in-place code, arity and dispatch-guard analysis (ast)",
            "Decides the autograd-Function contract: gradient arity, saved-tensor arity, storage/version consistency of in-place code (returned and saved values hold the latest version of their storage, no stale reads, no write to inputs), None-gradient implies forward refuses needs_input_grad, the fast-path dispatch guard covers the Function's preconditions, RBF/Matern sibling agreement. Does not decide the derivative formulae."),
    "C20": ("typestate/pairing analysis with a symbolic interpreter of the context-manager protocol (ast, MRO inlining, nullness invariant)",
            "Decides, for every exported setting class and every nesting depth and exception point at once, that __exit__ restores on every path every global field __enter__ may write, from the value captured from that same field; overrides chain; __exit__ never swallows; nobody else in gpytorch writes the globals; settings are entered on fresh instances; documented default = coded default. Does not decide thread-safety."),
}

CLAIMS["C13"] = ("monomial (rational-exponent) algebra on the quadrature change of variables, integrand/return shape of the one-dimensional likelihoods, cell decomposition of the masked cases of LogNormalCDF (ast)",
                 "Thin claim, the structural clauses ONLY: GaussHermiteQuadrature1D.forward is sum over the node axes of pi^(-1/2) w func(m + 2^(1/2) v^(1/2) t) with (t, w) = hermgauss(num_locs) and num_locs defaulting to the setting; expected_log_prob = Q[log p(y|f)] and log_marginal = log Q[exp log p(y|f)] over the given distribution; Bernoulli conditional Phi(f), analytic marginal Phi(m (1+v)^(-1/2)), expected_log_prob = Q[log Phi(f (2y-1))]; Laplace / Student-t / Beta conditionals have the documented parameters; the masked cases of LogNormalCDF.forward / backward partition the real line, compute from their own elements and agree between forward and backward. Exactness for polynomials below degree 2n, the truncation error, the value of the hermgauss table and the 2e-3 accuracy of log_normal_cdf are numerical analysis and are NOT decided.")

NOT_APPLICABLE = {}


def rules_of(pid: str):
    """(rule id, text) pairs declared by the rule module - read from its source, so the manifest cannot lag behind the checker"""
    import ast
    out, seen = [], set()
    names = [pid.lower() + ".py"]
    src_dir = os.path.join(HERE, "sa", "rules")
    mod = ast.parse(open(os.path.join(src_dir, names[0])).read())
    imported = [a.module.split(".")[-1] + ".py" for a in ast.walk(mod) if isinstance(a, ast.ImportFrom) and a.module and a.level == 1 and a.module.startswith("common_")]
    for fn in names + imported:
        t = ast.parse(open(os.path.join(src_dir, fn)).read())
        for c in ast.walk(t):
            if isinstance(c, ast.Call) and isinstance(c.func, ast.Attribute) and c.func.attr == "rule" and len(c.args) >= 2 and isinstance(c.args[0], ast.Constant) \
                    and isinstance(c.args[0].value, str) and c.args[0].value.startswith(pid + "-") and c.args[0].value not in seen:
                txt = None
                try:
                    txt = ast.literal_eval(c.args[1])
                except Exception:
                    if isinstance(c.args[1], ast.BinOp) and isinstance(c.args[1].left, ast.Constant):
                        txt = str(c.args[1].left.value)
                seen.add(c.args[0].value)
                out.append((c.args[0].value, " ".join(str(txt or "").split())))
            # a table {"Cnn-k": "text", ...} registered in a loop
            if isinstance(c, ast.Dict) and c.keys and all(isinstance(k, ast.Constant) and isinstance(k.value, str) and k.value.startswith(pid + "-") for k in c.keys):
                for k, v in zip(c.keys, c.values):
                    try:
                        txt = ast.literal_eval(v)
                    except Exception:
                        continue
                    if k.value not in seen and isinstance(txt, str):
                        seen.add(k.value)
                        out.append((k.value, " ".join(txt.split())))
    out.sort(key=lambda kv: int(kv[0].split("-")[1].rstrip("abcdefgh") or 0))
    return out

UNBUILT_REASON = "clause designed (DESIGN.md section 4) but its checker is not built yet; not claimed through a weaker rule"


def main():
    checks = []
    na = [{"property_id": k, "reason": v} for k, v in sorted(NOT_APPLICABLE.items())]
    for pid in sorted(CLAIMS):
        tech, text = CLAIMS[pid]
        if not os.path.isfile(os.path.join(HERE, "sa", "rules", pid.lower() + ".py")):
            na.append({"property_id": pid, "reason": UNBUILT_REASON})
            continue
        rl = rules_of(pid)
        if rl:
            text = text + " Rules evaluated on every run (%d): " % len(rl) + "; ".join("%s %s" % (k, (v[:157] + "...") if len(v) > 160 else v) for k, v in rl) + "."
        checks.append({
            "property_id": pid,
            "quick_cmd": "./check %s --tier quick" % pid,
            "thorough_cmd": "./check %s --tier thorough" % pid,
            "evidence_file": "/verif/evidence/%s.json" % pid,
            "replay_cmd_template": "./check %s --replay {path}" % pid,
            "engine": "sa",
            "level_claimed": {"category": "other", "text": text, "design_ref": "DESIGN.md section 4, %s" % pid},
            "level_note": NOTE,
            "technique": "static analysis: " + tech,
        })
    m = {
        "version": 1,
        "setup_cmd": "./check setup",
        "hooks": {
            "guard": "GPYTORCH_VERIF",
            "enable": "none needed: the checks read source; no hook or instrumentation commit exists in /repo",
            "baseline_off_cmd": "cd /repo && /venv/bin/python -m pytest -q -p no:cacheprovider --timeout=900 --continue-on-collection-errors",
            "source_commits": [],
            "add_only": True,
        },
        "engines": [{
            "name": "sa", "path": "/verif/sa", "serves_properties": [c["property_id"] for c in checks],
            "kind_free_text": "repository-specific static analysis on CPython ast: program index with MRO/call resolution, structured CFG/path enumeration, small abstract domains (nullness, symbolic intervals, stride units, affine forms, storage versions, block ranges, shape prefixes); thorough tier adds checker self-validation on seeded-fault and benign scratch-copy variants",
        }],
        "checks": checks,
        "not_applicable": sorted(na, key=lambda d: d["property_id"]),
        "notes": "exit 0 = all obligations discharged (KNOWN-FINDING lines for entries of known_findings.json); exit 1 + VIOLATION line = an obligation violated at a construct not listed as known finding; exit 2 + ANALYSIS-ERROR = no verdict (vanished anchor, instance floor not met, unknown form, self-validation failure).",
    }
    with open(os.path.join(HERE, "MANIFEST.json"), "w") as fh:
        json.dump(m, fh, indent=1)
    print("claimed:", [c["property_id"] for c in checks])


if __name__ == "__main__":
    main()
