#!/usr/bin/env python3
"""Maintenance helper (never used by a check): append an entry to known_findings.json.
usage: tools_add_finding.py finding <id> <property> <rule> <instance> <replay> <what>
       tools_add_finding.py fixed   <id> <property> <commit> <what>"""
import json
import sys

d = json.load(open("/verif/known_findings.json"))
kind = sys.argv[1]
if kind == "finding":
    _, _, id_, prop, rule, inst, replay, what = sys.argv
    e = {"kind": "finding", "id": id_, "property": prop, "rule": rule, "instance": inst, "replay": replay, "what": what}
else:
    _, _, id_, prop, commit, what = sys.argv
    e = {"kind": "fixed", "id": id_, "property": prop, "commit": commit, "what": "fixed: property=%s %s %s" % (prop, commit, what)}
assert not any(f["id"] == id_ for f in d["findings"]), "duplicate id"
d["findings"].append(e)
json.dump(d, open("/verif/known_findings.json", "w"), indent=1)
print("added", id_)
